"""C20 -- host trust and the debugger's gates cannot be bypassed.

(a) sansio.utils.host_is_trusted / get_host are executed symbolically on a Host of n
solver characters against trusted lists and compared with a label-wise reference.
(b) debug.DebuggedApplication.__call__ (dispatch conjunction), execute_command,
display_console, pin_auth, log_pin_request, check_pin_trust, check_host_trust and
_fail_pin_auth are executed symbolically with the Host header (solver text), the PIN
cookie time stamp, the clock and the failed-attempt counter (solver integers) symbolic
and the request fields forked over their cases; a spy frame records evaluation.
"""
from __future__ import annotations

import contextlib

from symex.poly import pall_in, pand, pconcat, pcontains, peq, pimplies, plen, pendswith, pnone_in, pnot, por, pstr

PROPERTY = "C20"
BOUNDS = {
    "quick": {"host": "<= 5 printable ASCII characters (lower case letters; no upper case)", "pin_cookie_ts/clock/counter": "solver ints",
              "request fields": "forked over right/wrong/absent"},
    "thorough": {"host": "<= 7 characters"},
}
STUBS = [
    "werkzeug.debug.Request -> request stub whose args/path/environ are harness-controlled (query parsing is covered by C07)",
    "time.time -> solver int; time.sleep -> no-op; multiprocessing.Value -> object holding a solver int",
    "render_console_html -> constant; DebuggedApplication.debug_application -> constant app",
    "idna codec on ASCII text: identity with the label-length rule (symex.codecs_model)",
]
ASSUMPTIONS = ["host names are ASCII without upper-case letters (either verdict is accepted for case variants, IDNA is C-level)",
               "hash_pin (SHA-1) is executed natively on concrete pins; cookie signing strength is not modelled"]
OUTSIDE = ["IDN / punycode hosts", "template rendering", "real sockets", "hosts longer than the bound"]

HOST_ALPHA = [(0x21, 0x40), (0x5B, 0x7E)]  # printable ASCII without space and A-Z


def ref_strip_port(h):
    """host without its port: a bracketed IPv6 literal keeps everything up to ']'"""
    from symex.poly import pstartswith

    if bool(pstartswith(h, "[")):
        i = h.find("]")
        return h if i == -1 else h[: i + 1]
    return h.partition(":")[0]


def ref_trusted(host, trusted):
    """label-wise reference: equal label lists, or a proper suffix for a dot entry"""
    if plen(host) == 0:
        return False
    h = ref_strip_port(host)
    hl = h.split(".")
    # the idna codec rejects empty (except one trailing) and over-long labels
    body = hl[:-1] if (len(hl) > 1 and plen(hl[-1]) == 0) else hl
    if plen(h) and any(plen(x) == 0 for x in body):
        return False
    for e in trusted:
        suffix = e.startswith(".")
        e0 = ref_strip_port(e[1:] if suffix else e)
        el = e0.split(".")
        if len(hl) == len(el) and all(bool(peq(a, b)) for a, b in zip(hl, el)):
            return True
        if suffix and len(hl) > len(el) and all(bool(peq(a, b)) for a, b in zip(hl[-len(el):], el)):
            return True
    return False


TRUSTED_LISTS = [["ab"], [".ab"], ["a.b", ".c"], ["ab:80"], ["localhost", ".localhost", "127.0.0.1"], ["[::1]", "c"], [".c", "d"],
                 []]   # an empty list trusts nobody (it is not "no restriction")


def body_host_trust(I, X, n=3, tl=0, via="host_is_trusted", scheme="http", suffix=""):
    from symex.poly import pconcat
    from werkzeug.exceptions import SecurityError
    from werkzeug.sansio import utils

    host = X.str("host", n, minlen=n, maxcp=0x7F)
    X.assume(pall_in(host, HOST_ALPHA))
    if suffix:
        # an explicit port after the solver text: the default port of the scheme is dropped
        # from the returned host, and only the port -- never part of the name -- is ignored
        host = pconcat(host, suffix)
    trusted = TRUSTED_LISTS[tl]
    ret = None
    if via == "host_is_trusted":
        got = I.call(utils.host_is_trusted, (host, trusted))
        got = bool(got)
    elif via == "request":
        # request-level enforcement: Request.host with trusted_hosts configured
        from werkzeug.sansio.request import Request

        from werkzeug.datastructures import Headers

        req = I.call(Request, ("GET", scheme, ("srv", 80), "", "/", b"", I.call(Headers, ([("Host", host)],)), "1.2.3.4"))
        req.trusted_hosts = trusted
        try:
            ret = I.getattr(req, "host")
            got = True
        except SecurityError:
            got = False
    else:
        try:
            ret = I.call(utils.get_host, (scheme, host, None, trusted))
            got = True
        except SecurityError:
            got = False
    want = host
    if via in ("get_host", "request"):
        # get_host first drops the scheme's default port (documented), then checks trust
        default = {"http": ":80", "https": ":443"}[scheme]
        want = host[: plen(host) - len(default)] if bool(pendswith(host, default)) else host
    exp = ref_trusted(want, trusted)
    ok = got == exp
    if ret is not None:
        ok = ok and bool(peq(ret, want))
    return ok, {"got": got, "exp": exp, "ret": ret}


class FakeArgs:
    def __init__(self, d):
        self.d = d

    def get(self, key, default=None, type=None):
        v = self.d.get(key, default)
        if type is not None and v is not None:
            try:
                v = type(v)
            except ValueError:
                v = default
        return v

    def __getitem__(self, k):
        return self.d[k]


class FakeRequest:
    def __init__(self, environ, args, path):
        self.environ, self.args, self.path = environ, FakeArgs(args), path
        self.is_secure = False


class FakeValue:
    def __init__(self, v):
        self.value = v

    def get_lock(self):
        return contextlib.nullcontext()


class FakeTime:
    def __init__(self, now):
        self.now = now
        self.slept = 0

    def time(self):
        return self.now

    def sleep(self, s):
        self.slept += 1


class SpyFrame:
    def __init__(self):
        self.evaluated = []

    def eval(self, code):
        self.evaluated.append(code)
        return "spy-result"


def const_app(environ, start_response):
    return [b"app"]


WRONG_HASH = ("wrong-hash", "hash-prefix", "hash-junk")


def body_debugger(I, X, cmd="eval", hn=3, secret="right", cookie_kind="absent"):
    import werkzeug.debug as dbg
    from werkzeug.exceptions import SecurityError

    evalex = X.flag("evalex")
    pin_on = X.flag("pin_on")
    app = dbg.DebuggedApplication(const_app, evalex=evalex, pin_security=pin_on, pin_logging=False)
    app.trusted_hosts = [".ab", "c"]
    spy = SpyFrame()
    app.frames[0] = spy
    app.debug_application = const_app
    right_pin = app.pin
    # solver-quantified pieces
    if hn < 0:
        host = None   # no Host header at all: never trusted, even if the server's own name is
    else:
        host = X.str("host", hn, minlen=hn, maxcp=0x7F)
        X.assume(pall_in(host, HOST_ALPHA))
    now = X.int("now", 1700000000, 1700000100)
    counter = X.int("failed", 0, 40)
    ts = None
    environ = {"HTTP_HOST": host, "REQUEST_METHOD": "GET", "wsgi.url_scheme": "http", "SERVER_NAME": "srv", "SERVER_PORT": "80",
               "PATH_INFO": "/", "QUERY_STRING": ""}
    if host is None:
        del environ["HTTP_HOST"]
        environ["SERVER_NAME"] = "c"   # the bind name itself is on the trusted list
    if pin_on and cookie_kind != "absent":
        if cookie_kind == "malformed":
            environ["HTTP_COOKIE"] = f"{app.pin_cookie_name}=nonsense"
        else:
            ts = X.int("ts", 1700000000 - dbg.PIN_TIME - 60, 1700000100 - dbg.PIN_TIME + 60)
            h = dbg.hash_pin(right_pin) if cookie_kind == "valid-hash" else "0" * 12
            if cookie_kind == "hash-prefix":
                # a proper prefix of the right hash (the empty one included)
                h = dbg.hash_pin(right_pin)[:X.choice("prefix_len", [0, 1, 6, 11])]
            elif cookie_kind == "hash-junk":
                h = dbg.hash_pin(right_pin) + "0"
            environ["HTTP_COOKIE"] = pconcat(f"{app.pin_cookie_name}=", pstr(ts), f"|{h}")
    frm = X.choice("frm", ["known", "unknown", "absent"])
    args = {"__debugger__": "yes"}
    path = "/"
    if cmd == "eval":
        args["cmd"] = "1+1"
    elif cmd in ("pinauth", "printpin", "resource"):
        args["cmd"] = cmd
    if cmd == "pinauth":
        args["pin"] = X.choice("pin", ["right", "wrong"])
        args["pin"] = right_pin if (args["pin"] == "right" and right_pin) else "000-000-001"
    if cmd == "resource":
        args["f"] = "style.css"
    if cmd == "console":
        args = {}
        path = "/console"
    if cmd == "none":
        args = {"__debugger__": "yes"}
    if secret != "absent":
        args["s"] = app.secret if secret == "right" else "wrong-secret"
    if frm != "absent":
        args["frm"] = "0" if frm == "known" else "7"
    req = FakeRequest(environ, args, path)
    fake_time = FakeTime(now)
    app._failed_pin_auth = FakeValue(counter)
    captured = {}
    saved = (dbg.Request, dbg.time, dbg.render_console_html)
    dbg.Request = lambda env: req
    dbg.time = fake_time
    dbg.render_console_html = lambda **kw: "console"

    def start_response(status, headers, exc_info=None):
        captured["status"] = status
        return lambda b: None

    try:
        # dispatch: everything in __call__ except the final WSGI call of the chosen response
        resp_holder = {}
        I.call(_call_until_response, (app, environ, resp_holder))
    finally:
        dbg.Request, dbg.time, dbg.render_console_html = saved
    response = resp_holder["response"]
    host_ok = False if host is None else ref_trusted(host, app.trusted_hosts)
    cookie_ok = (not pin_on) or (cookie_kind == "valid-hash" and (now - dbg.PIN_TIME) < ts)
    evaluated = len(spy.evaluated) > 0
    is_sec_err = isinstance(response, SecurityError)
    ok = True
    # code evaluation only behind the full conjunction
    gate = pand(evalex, host_ok, secret == "right", frm == "known", cookie_ok, cmd == "eval")
    ok = pand(ok, pimplies(evaluated, gate))
    # and it is not refused when the conjunction holds
    if cmd == "eval":
        ok = pand(ok, pimplies(gate, evaluated))
    # console page / pin endpoints answer only trusted hosts
    reached_console = cmd == "console" and evalex
    reached_pin = cmd in ("pinauth", "printpin") and secret == "right"
    if reached_console or reached_pin:
        ok = pand(ok, peq(is_sec_err, pnot(host_ok)) if not isinstance(host_ok, bool) else (is_sec_err == (not host_ok)))
    auth = exhausted = None
    if cmd == "pinauth" and reached_pin and not is_sec_err and pin_on:
        import json

        data = json.loads(response.get_data(as_text=True))
        auth, exhausted = data["auth"], data["exhausted"]
        # more than ten failures: even the right PIN is refused (a still-valid cookie aside)
        locked = pand(counter > 10, pnot(cookie_ok))
        ok = pand(ok, pimplies(locked, auth is False))
        if cookie_kind not in WRONG_HASH:
            ok = pand(ok, pimplies(locked, exhausted is True))
        # and authentication needs a valid cookie or the right pin
        ok = pand(ok, pimplies(auth is True, por(cookie_ok, args.get("pin") == right_pin)))
        # the counting step: every failed attempt adds exactly one (so that "more than ten
        # failures" is reached after eleven), a success by PIN resets, nothing else changes
        after = app._failed_pin_auth.value
        if cookie_kind in WRONG_HASH:
            ok = pand(ok, peq(after, counter + 1))
        elif cookie_kind == "valid-hash":
            ok = pand(ok, pimplies(cookie_ok, peq(after, counter)))
        if cookie_kind in ("absent", "malformed"):
            wrong = args.get("pin") != right_pin
            ok = pand(ok, pimplies(counter > 10, peq(after, counter)))
            ok = pand(ok, pimplies(counter <= 10, peq(after, counter + 1) if wrong else peq(after, 0)))
    obs = {"evaluated": evaluated, "security_error": is_sec_err, "auth": auth, "exhausted": exhausted,
           "resp": type(response).__name__ if not callable(getattr(response, "__name__", None)) else "app",
           "failed_after": app._failed_pin_auth.value}
    return ok, obs


def _build_dispatch():
    """derive the dispatch function from the live source of DebuggedApplication.__call__:
    the last statement `return response(environ, start_response)` is rewritten to store
    `response`; everything else is the real code, re-read on every run."""
    import ast
    import inspect
    import textwrap

    import werkzeug.debug as dbg

    src = textwrap.dedent(inspect.getsource(dbg.DebuggedApplication.__call__))
    tree = ast.parse(src)
    fn = tree.body[0]
    last = fn.body[-1]
    if not (isinstance(last, ast.Return) and isinstance(last.value, ast.Call) and isinstance(last.value.func, ast.Name)
            and last.value.func.id == "response"):
        raise RuntimeError("DebuggedApplication.__call__ no longer ends in `return response(environ, start_response)`")
    fn.body[-1] = ast.parse("holder['response'] = response").body[0]
    fn.name = "_debugger_dispatch"
    fn.args.args = [ast.arg("self"), ast.arg("environ"), ast.arg("holder")]
    fn.returns = None
    for a in fn.args.args:
        a.annotation = None
    ast.fix_missing_locations(tree)
    return fn, tree


def make_stubs():
    from symex.interp import Closure, Env
    import werkzeug.debug as dbg

    fn, tree = _build_dispatch()

    def dispatch_stub(I, app, environ, holder):
        return Closure(fn, Env(vars(dbg)), I, "_debugger_dispatch")(app, environ, holder)

    return {_call_until_response: dispatch_stub}


def _native_dispatch():
    import werkzeug.debug as dbg

    fn, tree = _build_dispatch()
    ns = vars(dbg)
    code = compile(tree, "<debugger-dispatch>", "exec")
    loc = {}
    exec(code, ns, loc)
    return loc["_debugger_dispatch"]


def _call_until_response(app, environ, holder):
    """native twin of the interpreted dispatch (same rewritten source)"""
    return _native_dispatch()(app, environ, holder)


def obligations(tier, seed):
    out = []
    quick = tier == "quick"
    for via in ("host_is_trusted", "get_host"):
        for tl in range(len(TRUSTED_LISTS)):
            for n in (range(0, 6) if quick else range(0, 8)):
                if via == "get_host" and (n > 4 and quick):
                    continue
                out.append({"name": f"host_trust[{via},list={tl},n={n}]", "body": "body_host_trust",
                            "params": {"n": n, "tl": tl, "via": via},
                            "opts": {"budget_s": 900, "ctx": {"max_cp": 0x7F}}, "witness": n == 2 and tl == 1})
    for tl in (0, 2, len(TRUSTED_LISTS) - 1):
        for n in (range(0, 4) if quick else range(0, 6)):
            out.append({"name": f"host_trust[request,list={tl},n={n}]", "body": "body_host_trust", "params": {"n": n, "tl": tl, "via": "request"},
                        "opts": {"budget_s": 900, "ctx": {"max_cp": 0x7F}}})
    for scheme, suffix in (("http", ":80"), ("https", ":443"), ("http", ":443"), ("https", ":80")):
        for tl in (0, 2, 4):
            for n in (range(1, 4) if quick else range(1, 6)):
                out.append({"name": f"host_trust[get_host,{scheme},list={tl},suffix={suffix},n={n}]", "body": "body_host_trust",
                            "params": {"n": n, "tl": tl, "via": "get_host", "scheme": scheme, "suffix": suffix},
                            "opts": {"budget_s": 900, "ctx": {"max_cp": 0x7F}}})
    for cmd in ("eval", "console", "pinauth", "printpin", "resource", "none"):
        for hn in ([-1, 1, 3] if quick else [-1, 0, 1, 2, 3, 4]):
            for secret in ("right", "wrong", "absent"):
                for ck in ("absent", "valid-hash", "wrong-hash", "malformed") + (("hash-prefix", "hash-junk") if secret == "right" and (hn == 1 if quick else hn in (1, 3)) and (cmd in ("eval", "pinauth", "console") or not quick) else ()):
                    out.append({"name": f"debugger[{cmd},host_len={hn},secret={secret},cookie={ck}]", "body": "body_debugger",
                                "params": {"cmd": cmd, "hn": hn, "secret": secret, "cookie_kind": ck},
                                "opts": {"budget_s": 1500, "ctx": {"max_cp": 0x7F, "bv_ints": True, "max_digits": 12}},
                                "witness": hn == 1 and secret == "right" and ck == "valid-hash"})
    return out
