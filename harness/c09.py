"""C09 -- the request body stream never over-reads, truncates or hangs.

Symbolically executes wsgi.LimitedStream (readinto/readall/exhaust/on_*) and
wsgi.get_input_stream over a nondeterministic underlying stream.
"""
from __future__ import annotations

import io

from symex.core import SInt
from symex.poly import (pand, pbytearray, pconcat, peq, pfreeze, pimplies, plen, pmin, pnot, por, pslice)

PROPERTY = "C09"
BOUNDS = {
    "quick": {"data_len_max": 6, "ops": 2, "fragment_sizes": "1..6 fresh per underlying call"},
    "thorough": {"data_len_max": 8, "ops": 3, "fragment_sizes": "1..8 fresh per underlying call"},
}
STUBS = [
    "underlying stream: returns min(want, remaining, fresh fragment size) bytes per call, raises OSError at a solver-chosen call",
    "io.RawIOBase.read(n) modelled by its documented definition: b=bytearray(n); k=readinto(b); return bytes(b[:k]) (C in CPython)",
]
ASSUMPTIONS = [
    "data content is the position pattern 1..N (content independent code)",
    "buffered wrappers (io.BufferedReader/TextIOWrapper) are represented by the io.RawIOBase.readinto contract they rely on",
]
OUTSIDE = ["CONTENT_LENGTH texts longer than 3 characters", "readline/readlines/iteration (C, defined on read)", "data longer than the bound", "more operations than the bound"]


class Raw:
    """nondeterministic underlying stream"""

    def __init__(self, X, N, L, fault_at):
        self.X, self.N, self.L, self.fault_at = X, N, L, fault_at
        self.data = bytes(range(1, N + 1))
        self.pos = 0
        self.calls = 0
        self.zero_reads = 0
        self.faulted = False

    def _take(self, want):
        self.calls += 1
        if self.calls == self.fault_at:
            self.faulted = True
            raise OSError("injected")
        frag = self.X.int(f"frag{self.calls}", 1, self.N)
        k = pmin(want, self.L - self.pos, frag)
        if k <= 0:
            k = 0
            self.zero_reads += 1
        out = pslice(self.data, self.pos, self.pos + k)
        self.pos = self.pos + k
        return out

    def read(self, n=-1):
        return pfreeze(self._take(n))


class RawInto(Raw):
    def readinto(self, b):
        out = self._take(plen(b))
        k = plen(out)
        b[:k] = out
        return k


class BigBuf:
    """a zero-filled bytearray too large to spell out: only its first `cap` bytes are
    represented; supports exactly what readinto implementations do with their buffer
    (len, b[:k] = v).  Stands in for the bytearray(size) that io.RawIOBase.read allocates."""

    def __init__(self, size, cap):
        self.n = size
        self.cap = cap
        self.prefix = bytes(cap)

    def __len__(self):
        return self.n

    def __setitem__(self, k, v):
        if not isinstance(k, slice) or k.start not in (None, 0) or k.step is not None:
            raise NotImplementedError("BigBuf store form")
        stop = k.stop
        self.n = self.n - stop + plen(v)
        self.prefix = pslice(pconcat(pfreeze(v), pslice(self.prefix, stop, None), bytes(self.cap)), 0, self.cap)

    def head(self, k):
        return pslice(self.prefix, 0, k)


def model_rawiobase_read(I, self, size=-1):
    """documented behaviour of io.RawIOBase.read in terms of readinto"""
    if size is None:
        size = -1
    if size < 0:
        return I.call(self.readall, ())
    N = self._stream.N
    if isinstance(size, SInt):
        b = pbytearray(size, 0, N + 2)
    elif size > N + 2:
        b = BigBuf(size, N + 2)
    else:
        b = pbytearray(SInt(__import__("z3").IntVal(size)), 0, N + 2)
    n = I.call(self.readinto, (b,))
    if n is None:
        return None
    if isinstance(b, BigBuf):
        return pfreeze(b.head(n))
    return pfreeze(pslice(b, 0, n))


def make_stubs():
    return {io.RawIOBase.read: model_rawiobase_read}


def body_limited(I, X, N=6, kinds=("readinto", "read"), has_readinto=True):
    from werkzeug.exceptions import ClientDisconnected, RequestEntityTooLarge
    from werkzeug.wsgi import LimitedStream

    L = X.int("L", 0, N)
    limit = X.int("limit", 0, N + 1)
    is_max = X.flag("is_max")
    nops = len(kinds)
    fault_at = X.cint("fault_at", 0, nops + 1)  # 0 = never
    raw = (RawInto if has_readinto else Raw)(X, N, L, fault_at)
    ls = LimitedStream(raw, limit, is_max)
    data = raw.data
    got = b""
    exc = None
    ok = True
    ops = []
    pos_before = 0
    for j, kind in enumerate(kinds):
        ops.append(kind)
        pos_before = raw.pos
        try:
            if kind == "readinto":
                size = X.int(f"size{j}", 1, N + 1)
                b = pbytearray(size, 0xEE, N + 1)
                n = I.call(ls.readinto, (b,))
                # io.RawIOBase.readinto contract relied upon by BufferedReader/TextIOWrapper
                ok = pand(ok, peq(plen(b), size), n >= 0, n <= size)
                tail = pslice(b, n, None)
                ok = pand(ok, peq(tail, pslice(b"\xee" * (N + 1), 0, size - n)))
                got = pconcat(got, pfreeze(pslice(b, 0, n)))
            elif kind == "read":
                size = X.int(f"size{j}", 1, N + 2)
                d = I.call(ls.read, (size,))
                ok = pand(ok, plen(d) <= size)
                got = pconcat(got, d)
            elif kind == "readall":
                got = pconcat(got, I.call(ls.readall, ()))
            else:
                got = pconcat(got, I.call(ls.exhaust, ()))
        except ClientDisconnected:
            exc = "ClientDisconnected"
            break
        except RequestEntityTooLarge:
            exc = "RequestEntityTooLarge"
            break
    glen = plen(got)
    # never hands out / consumes more than the limit, and exactly a prefix of the data
    ok = pand(ok, glen <= limit, raw.pos <= limit, peq(got, pslice(data, 0, glen)))
    if exc is None:
        ok = pand(ok, peq(raw.pos, glen))
    if exc == "ClientDisconnected":
        # only when the client really sent less than declared (or the transport failed)
        ok = pand(ok, por(raw.faulted, pand(raw.pos >= L, raw.pos < limit)), pnot(pand(is_max, pnot(raw.faulted))))
    if exc == "RequestEntityTooLarge":
        # only when the maximum has been reached: by an earlier call for sized reads, possibly
        # during this very call for an unbounded read (which asks for "everything")
        ok = pand(ok, is_max, raw.pos >= limit, True if ops[-1] == "readall" else pos_before >= limit)
    if exc is None and ops and ops[-1] == "readall":
        # no silent truncation: an unbounded read that returns normally under a MAXIMUM has
        # seen the end of the client's data (under a declared length the rest is not the body).
        # exhaust() is a drain that by contract stops quietly at the limit.
        ok = pand(ok, pimplies(is_max, raw.pos >= L))
    if raw.faulted:
        ok = pand(ok, exc == "ClientDisconnected")
    obs = {"got": got, "pos": raw.pos, "exc": exc, "ops": ops, "calls": raw.calls}
    return ok, obs


KINDS = ["readinto", "read", "readall", "exhaust"]


def body_input_stream(I, X, cl_kind="text", via="function"):
    """wsgi.get_input_stream decision table (shared with C10)"""
    from harness.c10 import body_input_stream as b

    return b(I, X, cl_kind, via)


def obligations(tier, seed):
    import itertools

    N, nops = (6, 2) if tier == "quick" else (8, 3)
    out = []
    for has_readinto in (True, False):
        for kinds in itertools.product(KINDS, repeat=nops):
            # after readall/exhaust the stream is at its end; a following op only
            # exercises the exhausted branch -- keep those, they are cheap
            out.append({
                "name": f"limited_stream[N={N},ops={'+'.join(kinds)},readinto={has_readinto}]",
                "body": "body_limited",
                "params": {"N": N, "kinds": list(kinds), "has_readinto": has_readinto},
                "opts": {"ctx": {"fork_indices": False, "buf_cap": N + 2}, "budget_s": 600 if tier == "quick" else 3000},
                "witness": kinds[0] == "readinto",
            })
    for k in ("text", "absent"):
        out.append({"name": f"input_stream[{k}]", "body": "body_input_stream", "params": {"cl_kind": k},
                    "opts": {"budget_s": 900, "ctx": {"max_cp": 0x7FF}}, "witness": k == "text"})
        out.append({"name": f"input_stream[{k},via=Request.stream]", "body": "body_input_stream", "params": {"cl_kind": k, "via": "request"},
                    "opts": {"budget_s": 900, "ctx": {"max_cp": 0x7FF}, "stubs_from": "harness.c07"}})
    return out
