"""C04 -- URL building and matching are mutually inverse.

MapAdapter.build (incl. _partial_build, Rule.suitable_for, Rule.build and the URL builder
werkzeug generates and compiles per rule -- its AST is captured when werkzeug compiles it
and executed symbolically), the converters' to_url / to_python and MapAdapter.match are
executed symbolically on converter values made of solver characters / solver integers.
"""
from __future__ import annotations

from harness.c03 import extra_checks, install_builder_capture, make_stubs, punquote, quoted  # noqa: F401
from symex.poly import pall_in, pand, pconcat, pcontains, peq, pimplies, plen, pnone_in, pnot, por, pstartswith

PROPERTY = "C04"
BOUNDS = {
    "quick": {"string values": "<= 3 solver characters, printable ASCII incl. space and URL-reserved characters, no '/'", "ints": "solver ints with <= 5 digits (signed where the converter allows)",
              "path values": "<= 4 characters, segments separated by single slashes", "script roots": ["/", "/app", "/app/"], "force_external": [False, True]},
    "thorough": {"string values": "<= 5 characters", "path values": "<= 6 characters"},
}
STUBS = ["urllib.parse.quote: per-byte model, differentially tested at start-up", "percent-decoding of the built URL: ASCII escapes only"]
ASSUMPTIONS = ["rule maps are enumerated (pairwise non-overlapping rules)", "values are ASCII (non-ASCII quoting goes through UTF-8 and is outside this claim)"]
OUTSIDE = ["float and uuid converters (C parsing / stdlib class)", "non-ASCII values", "subdomain / host matching", "extra query values"]

RULES = [
    ("s", "/s/<x>", "str"),
    ("i", "/i/<int:n>", "int"),
    ("f", "/f/<int(fixed_digits=3):n>", "int3"),
    ("g", "/g/<int(signed=True):n>", "sint"),
    ("p", "/p/<path:p>", "path"),
    ("a", "/a/<any(xx,y):k>", "any"),
    ("m", "/m/<x>/<int:n>", "str+int"),
    ("l", "/l/<string(length=2):x>", "str2"),
    ("h", "/h/<int(fixed_digits=4,signed=True):n>", "sint4"),
]


def build_map():
    from werkzeug.routing import Map, Rule

    install_builder_capture()
    m = Map([Rule(r, endpoint=ep) for ep, r, kind in RULES])
    m.update()
    return m


def body_build_match(I, X, ep="s", script="/", external=False, n=2):
    m = build_map()
    adapter = m.bind("example.org", script, url_scheme="http")
    kind = [k for e, r, k in RULES if e == ep][0]
    values = {}
    if kind in ("str", "str2", "str+int"):
        ln = 2 if kind == "str2" else n
        x = X.str("x", ln, minlen=ln, maxcp=0x7E)
        X.assume(pall_in(x, [(0x20, 0x7E)]))
        X.assume(pnone_in(x, [0x2F]))
        X.assume(plen(x) > 0)
        values["x"] = x
    if kind in ("int", "str+int"):
        values["n"] = X.int("n", 0, 99999)
    if kind == "int3":
        values["n"] = X.int("n", 0, 999)
    if kind == "sint":
        values["n"] = X.int("n", -9999, 9999)
    if kind == "sint4":
        # canonical domain: what fits into four characters including the sign
        values["n"] = X.int("n", -999, 9999)
    if kind == "path":
        p = X.str("p", n, minlen=n, maxcp=0x7E)
        X.assume(pall_in(p, [(0x20, 0x7E)]))
        X.assume(plen(p) > 0)
        X.assume(pnot(pstartswith(p, "/")))
        X.assume(pnot(p.endswith("/")) if hasattr(p, "endswith") else True)
        X.assume(pnot(pcontains(p, "//")))
        values["p"] = p
    if kind == "any":
        values["k"] = X.choice("k", ["xx", "y"])
    url = I.call(adapter.build, (ep,), {"values": dict(values), "force_external": external})
    root = ("http://example.org" if external else "") + script.rstrip("/")
    ok = pstartswith(url, root + "/")
    if not bool(ok):
        return False, {"url": url}
    path = punquote(url[len(root):])
    got_ep, got_args = I.call(adapter.match, (), {"path_info": path, "method": "GET"})
    got = dict(I.dict_items(got_args))
    ok = pand(got_ep == ep, len(got) == len(values), *[peq(got.get(k), v) for k, v in values.items()])
    # the built URL is ASCII and contains no raw reserved delimiter that would end the path
    ok = pand(ok, pall_in(url, [(0x21, 0x7E)]), pnone_in(url, [0x3F, 0x23]))
    return ok, {"url": url, "match": [got_ep, got]}


def body_match_build(I, X, n=4):
    """the URL built from the result of a successful match is the URL that was matched"""
    from werkzeug.exceptions import HTTPException
    from werkzeug.routing import RequestRedirect

    m = build_map()
    adapter = m.bind("example.org", "/", url_scheme="http")
    tail = X.str("path", n, minlen=n, maxcp=0x7E)
    X.assume(pall_in(tail, [(0x21, 0x7E)]))
    X.assume(pnone_in(tail, [0x25, 0x3F, 0x23]))
    X.assume(pnot(pstartswith(tail, "/")))
    path = pconcat("/", tail)
    try:
        ep, args = I.call(adapter.match, (), {"path_info": path, "method": "GET"})
    except RequestRedirect:
        return True, {"outcome": "redirect"}
    except HTTPException:
        return True, {"outcome": "no match"}
    vals = dict(I.dict_items(args))
    url = I.call(adapter.build, (ep,), {"values": vals})
    kind = [k for e, r, k in RULES if e == ep][0]
    if kind in ("int", "str+int", "sint", "sint4"):
        # leading zeros are not canonical for plain ints: the inverse law is stated for the
        # converter's canonical domain
        return True, {"outcome": "non-canonical domain", "ep": ep}
    ok = peq(url, quoted(path))
    return ok, {"ep": ep, "url": url}


def obligations(tier, seed):
    out = []
    quick = tier == "quick"
    for ep, rule, kind in RULES:
        for script in ("/", "/app", "/app/"):
            for external in (False, True):
                if quick and script != "/" and external:
                    continue
                ns = [0] if kind in ("int", "int3", "sint", "sint4", "any", "str2") else (range(1, 4) if quick else range(1, 6))
                if kind == "path":
                    ns = range(1, 5) if quick else range(1, 7)
                for n in ns:
                    out.append({"name": f"build_match[{ep},script={script},external={external},n={n}]", "body": "body_build_match",
                                "params": {"ep": ep, "script": script, "external": external, "n": n},
                                "opts": {"budget_s": 900, "ctx": {"max_cp": 0x7E, "bv_ints": True, "max_digits": 6}},
                                "witness": n in (0, 2) and script == "/" and not external})
    for n in (range(1, 6) if quick else range(1, 8)):
        out.append({"name": f"match_build[n={n}]", "body": "body_match_build", "params": {"n": n},
                    "opts": {"budget_s": 900, "ctx": {"max_cp": 0x7E, "bv_ints": True, "max_digits": 6}}, "witness": n == 3})
    return out
