"""C04 -- URL building and matching are mutually inverse.

MapAdapter.build (incl. _partial_build, Rule.suitable_for, Rule.build and the URL builder
werkzeug generates and compiles per rule -- its AST is captured when werkzeug compiles it
and executed symbolically), the converters' to_url / to_python and MapAdapter.match are
executed symbolically on converter values made of solver characters / solver integers.
"""
from __future__ import annotations

from harness.c03 import extra_checks, install_builder_capture, punquote, quoted  # noqa: F401
from symex.poly import pall_in, pand, pconcat, pcontains, peq, pimplies, plen, pnone_in, pnot, por, pstartswith

PROPERTY = "C04"
BOUNDS = {
    "quick": {"string values": "<= 3 solver characters, ASCII U+0001..U+007E incl. control characters, space and URL-reserved characters, no '/'", "ints": "solver ints with <= 5 digits (signed where the converter allows)",
              "path values": "<= 4 characters, segments separated by single slashes", "script roots": ["/", "/app", "/app/"], "force_external": [False, True]},
    "thorough": {"string values": "<= 5 characters", "path values": "<= 6 characters"},
}
STUBS = ["urllib.parse.quote: per-byte model, differentially tested at start-up", "percent-decoding of the built URL: ASCII escapes only"]
ASSUMPTIONS = ["rule maps are enumerated (pairwise non-overlapping rules)", "values are ASCII (non-ASCII quoting goes through UTF-8 and is outside this claim)"]
OUTSIDE = ["float converter (C float parsing/formatting)", "uuid values beyond 3 (8) free hex digits in a fixed template", "non-ASCII values", "Subdomain factory", "more than one extra query value, multi-valued extras"]

RULES = [
    ("s", "/s/<x>", "str"),
    ("i", "/i/<int:n>", "int"),
    ("f", "/f/<int(fixed_digits=3):n>", "int3"),
    ("g", "/g/<int(signed=True):n>", "sint"),
    ("p", "/p/<path:p>", "path"),
    ("a", "/a/<any(xx,y):k>", "any"),
    ("m", "/m/<x>/<int:n>", "str+int"),
    ("l", "/l/<string(length=2):x>", "str2"),
    ("h", "/h/<int(fixed_digits=4,signed=True):n>", "sint4"),
    ("u", "/u/<uuid:u>", "uuid"),
    # a defaults rule next to its variable rule (same endpoint): the value that equals the
    # default builds the short URL, every other value -- 0 included -- the long one
    ("d", "/d/<int:n>", "int-default"),
    # same endpoint as the defaults rule '/L/' below, with MORE arguments: when all of them
    # are given this rule must be chosen even if the shared one equals the default
    ("L", "/P/<int:n>/<x>", "str+int"),
    # an any() converter whose items are prefixes of one another, followed by another segment
    ("A2", "/a2/<any(img,image,images):v>/show", "any3"),
]
DEFAULT_RULES = [("d", "/d", {"n": 1}), ("L", "/L/", {"n": 1}),
                 # defaults for variables that DO appear in the rule: built from the default's URL form
                 ("e", "/e/<x>/<int:n>", {"x": "a b%?#"}), ("e2", "/E/<path:p>/t", {"p": "u v/w%"})]


class SymUUID:
    """stands for a uuid.UUID whose canonical text holds solver characters"""

    __symex_carrier__ = True

    def __init__(self, text):
        self.text = text

    def __str__(self):
        return self.text


UUID_TEMPLATE = "01234567-89ab-4cde-8f01-23456789abcd"


def make_stubs():  # noqa: F811  (extends the quote stubs imported above)
    import uuid

    from harness.c03 import make_stubs as base
    from symex.seq import SSeq

    st = base()

    def uuid_stub(I, hex=None, *a, **kw):
        """uuid.UUID(text) on solver text that already has the canonical 8-4-4-4-12 lower-case
        shape (that is what the converter's regex admitted): an object with that text"""
        if isinstance(hex, SSeq) and not a and not kw:
            return SymUUID(hex)
        return uuid.UUID(hex, *a, **kw)

    st[uuid.UUID] = uuid_stub
    return st


def build_map():
    from werkzeug.routing import Map, Rule

    install_builder_capture()
    m = Map([Rule(r, endpoint=ep) for ep, r, kind in RULES] + [Rule(r, endpoint=ep, defaults=d) for ep, r, d in DEFAULT_RULES])
    m.update()
    return m


def body_build_match(I, X, ep="s", script="/", external=False, n=2, extra=0):
    m = build_map()
    adapter = m.bind("example.org", script, url_scheme="http")
    kind = [k for e, r, k in RULES if e == ep][0]
    values = {}
    if kind in ("str", "str2", "str+int"):
        ln = 2 if kind == "str2" else n
        x = X.str("x", ln, minlen=ln, maxcp=0x7E)
        X.assume(pall_in(x, [(0x01, 0x7E)]))
        X.assume(pnone_in(x, [0x2F]))
        X.assume(plen(x) > 0)
        values["x"] = x
    if kind in ("int", "str+int", "int-default"):
        values["n"] = X.int("n", 0, 99999)
    if kind == "int3":
        values["n"] = X.int("n", 0, 999)
    if kind == "sint":
        values["n"] = X.int("n", -9999, 9999)
    if kind == "sint4":
        # canonical domain: what fits into four characters including the sign
        values["n"] = X.int("n", -999, 9999)
    if kind == "path":
        p = X.str("p", n, minlen=n, maxcp=0x7E)
        X.assume(pall_in(p, [(0x01, 0x7E)]))
        X.assume(plen(p) > 0)
        X.assume(pnot(pstartswith(p, "/")))
        X.assume(pnot(p.endswith("/")) if hasattr(p, "endswith") else True)
        X.assume(pnot(pcontains(p, "//")))
        values["p"] = p
    if kind == "any":
        values["k"] = X.choice("k", ["xx", "y"])
    if kind == "any3":
        values["v"] = X.choice("v", ["img", "image", "images"])
    utext = None
    if kind == "uuid":
        # n solver hex digits at positions spread over the five groups (incl. the version and
        # variant digits); the others are fixed
        import uuid

        pos = [14, 19, 0, 35, 9, 24, 12, 22][:n]
        h = X.str("hex", n, minlen=n, maxcp=0x7F)
        X.assume(pall_in(h, [(0x30, 0x39), (0x61, 0x66)]))
        parts, last = [], 0
        for j, ppos in sorted(zip(range(n), pos), key=lambda t: t[1]):
            parts += [UUID_TEMPLATE[last:ppos], h[j:j + 1]]
            last = ppos + 1
        utext = pconcat(*parts, UUID_TEMPLATE[last:])
        values["u"] = SymUUID(utext) if X.symbolic else uuid.UUID(utext)
    bvalues = dict(values)
    ev = None
    if extra:
        # a value the rule does not bind is appended as a query argument
        ev = X.str("extra", extra, minlen=extra, maxcp=0x7E)
        X.assume(pall_in(ev, [(0x21, 0x7E)]))
        X.assume(pnone_in(ev, [0x2B]))
        bvalues["extra"] = ev
    url = I.call(adapter.build, (ep,), {"values": bvalues, "force_external": external})
    root = ("http://example.org" if external else "") + script.rstrip("/")
    ok = pstartswith(url, root + "/")
    if not bool(ok):
        return False, {"url": url}
    if extra:
        # exactly one '?': the query carries the extra value (escaped so that nothing in it ends
        # the query or starts another pair), the path in front of it is checked as usual
        cut = url.find("?")
        if bool(cut < 0):
            return False, {"url": url}
        query = url[cut + 1:]
        url = url[:cut]
        if not bool(pand(pstartswith(query, "extra="), pnone_in(query, [0x23, 0x26, 0x20]), peq(punquote(query[6:]), ev))):
            return False, {"url": url, "query": query}
    path = punquote(url[len(root):])
    got_ep, got_args = I.call(adapter.match, (), {"path_info": path, "method": "GET"})
    got = dict(I.dict_items(got_args))
    if utext is not None:
        ok = pand(got_ep == ep, len(got) == 1, "u" in got and peq(str(got["u"]) if not isinstance(got["u"], SymUUID) else got["u"].text, utext))
    else:
        ok = pand(got_ep == ep, len(got) == len(values), *[peq(got.get(k), v) for k, v in values.items()])
    # the built URL is printable ASCII and contains no raw reserved delimiter that would end the path
    ok = pand(ok, pall_in(url, [(0x21, 0x7E)]), pnone_in(url, [0x3F, 0x23]))
    if utext is not None:
        got = {k: (v.text if isinstance(v, SymUUID) else str(v)) for k, v in got.items()}
    return ok, {"url": url, "match": [got_ep, got]}


def body_domain(I, X, ep="u", n=2, host_matching=False, factory=""):
    """subdomain / host rules: the URL built for a rule on another subdomain (or host) is
    external; matching its path on the adapter bound to that subdomain (host) gives the same
    endpoint and values -- also when the placeholder value equals a literal subdomain of a
    sibling rule"""
    from werkzeug.routing import Map, Rule

    install_builder_capture()
    from werkzeug.routing import EndpointPrefix, Submount

    def wrap(rules):
        # rule factories copy their rules with Rule.empty(): nothing of a rule may get lost
        if factory == "submount":
            return [Submount("/m", rules)]
        if factory == "endpoint-prefix":
            return [EndpointPrefix("", rules)]
        return rules

    if host_matching:
        m = Map(wrap([Rule("/p/<int:n>", endpoint="w", host="www.example.org"), Rule("/q/<x>", endpoint="u", host="<user>.example.org")]) +
                [Rule("/", endpoint="r", host="example.org")], host_matching=True)
        adapter = m.bind("example.org", url_scheme="http")
    else:
        m = Map(wrap([Rule("/p/<int:n>", endpoint="w", subdomain="www"), Rule("/q/<x>", endpoint="u", subdomain="<user>")]) + [Rule("/", endpoint="r")])
        adapter = m.bind("example.org", url_scheme="http")
    m.update()
    values = {}
    if ep == "u":
        user = X.str("user", n, minlen=n, maxcp=0x7A)
        X.assume(pall_in(user, [(0x30, 0x39), (0x61, 0x7A)]))
        x = X.str("x", 1, minlen=1, maxcp=0x7E)
        X.assume(pall_in(x, [(0x21, 0x7E)]))
        X.assume(pnone_in(x, [0x2F]))
        values = {"user": user, "x": x}
        exp_host = pconcat(user, ".example.org")
    else:
        values = {"n": X.int("n", 0, 999)}
        exp_host = "www.example.org"
    url = I.call(adapter.build, (ep,), {"values": dict(values)})
    pre = pconcat("http://", exp_host, "/m/" if factory == "submount" else "/")
    if not bool(pstartswith(url, pre)):
        return False, {"url": url}
    path = punquote(url[plen(pre) - (3 if factory == "submount" else 1):])
    if host_matching:
        adapter2 = I.call(m.bind, (exp_host,), {"url_scheme": "http"})
    else:
        adapter2 = I.call(m.bind, ("example.org",), {"url_scheme": "http", "subdomain": exp_host[: plen(exp_host) - len(".example.org")]})
    got_ep, got_args = I.call(adapter2.match, (), {"path_info": path, "method": "GET"})
    got = dict(I.dict_items(got_args))
    ok = pand(got_ep == ep, len(got) == len(values), *[peq(got.get(k), v) for k, v in values.items()])
    return ok, {"url": url, "match": [got_ep, got]}


def body_build_default(I, X, ep="e"):
    """a rule whose own variable has a default: building without that value uses the default
    (quoted once), and the URL matches back to the default"""
    m = build_map()
    adapter = m.bind("example.org", "/", url_scheme="http")
    spec = [d for e, r, d in DEFAULT_RULES if e == ep][0]
    values = {}
    if ep == "e":
        values["n"] = X.int("n", 0, 99999)
    url = I.call(adapter.build, (ep,), {"values": dict(values)})
    path = punquote(url)
    got_ep, got_args = I.call(adapter.match, (), {"path_info": path, "method": "GET"})
    got = dict(I.dict_items(got_args))
    want = dict(spec)
    want.update(values)
    ok = pand(got_ep == ep, len(got) == len(want), *[peq(got.get(k), v) for k, v in want.items()])
    ok = pand(ok, pall_in(url, [(0x21, 0x7E)]), pnone_in(url, [0x3F, 0x23]))
    # the default is quoted exactly once: the built URL is the one a request for the default
    # value carries (match() overrides the matched text with the default, so the values alone
    # would not show a doubly quoted constant)
    from symex.poly import pstr as _pstr

    if ep == "e":
        expected = pconcat("/e/", quoted(spec["x"]), "/", _pstr(values["n"]))
    else:
        expected = "/E/" + quoted(spec["p"]) + "/t"
    ok = pand(ok, peq(url, expected))
    return ok, {"url": url, "match": [got_ep, got]}


def body_match_build(I, X, n=4):
    """the URL built from the result of a successful match is the URL that was matched"""
    from werkzeug.exceptions import HTTPException
    from werkzeug.routing import RequestRedirect

    m = build_map()
    adapter = m.bind("example.org", "/", url_scheme="http")
    tail = X.str("path", n, minlen=n, maxcp=0x7E)
    X.assume(pall_in(tail, [(0x21, 0x7E)]))
    X.assume(pnone_in(tail, [0x25, 0x3F, 0x23]))
    X.assume(pnot(pstartswith(tail, "/")))
    path = pconcat("/", tail)
    try:
        ep, args = I.call(adapter.match, (), {"path_info": path, "method": "GET"})
    except RequestRedirect:
        return True, {"outcome": "redirect"}
    except HTTPException:
        return True, {"outcome": "no match"}
    vals = dict(I.dict_items(args))
    url = I.call(adapter.build, (ep,), {"values": vals})
    kind = ([k for e, r, k in RULES if e == ep] or ["default-rule"])[0]
    if kind in ("int", "str+int", "sint", "sint4", "int-default", "default-rule"):
        # leading zeros are not canonical for plain ints: the inverse law is stated for the
        # converter's canonical domain
        return True, {"outcome": "non-canonical domain", "ep": ep}
    ok = peq(url, quoted(path))
    return ok, {"ep": ep, "url": url}


def obligations(tier, seed):
    out = []
    quick = tier == "quick"
    for ep, rule, kind in RULES:
        for script in ("/", "/app", "/app/"):
            for external in (False, True):
                if quick and script != "/" and external:
                    continue
                ns = [0] if kind in ("int", "int3", "sint", "sint4", "any", "any3", "str2", "int-default") else (range(1, 4) if quick else range(1, 6))
                if kind == "uuid":
                    ns = [3] if quick else [4, 8]
                if kind == "path":
                    ns = range(1, 5) if quick else range(1, 7)
                for n in ns:
                    out.append({"name": f"build_match[{ep},script={script},external={external},n={n}]", "body": "body_build_match",
                                "params": {"ep": ep, "script": script, "external": external, "n": n},
                                "opts": {"budget_s": 900, "ctx": {"max_cp": 0x7E, "bv_ints": True, "max_digits": 6}},
                                "witness": n in (0, 2) and script == "/" and not external})
    for ep, n in (("s", 1), ("i", 0), ("p", 2)):
        for k in ((1, 2) if quick else (1, 2, 3)):
            out.append({"name": f"build_match[{ep},extra={k},n={n}]", "body": "body_build_match",
                        "params": {"ep": ep, "script": "/", "external": False, "n": n, "extra": k},
                        "opts": {"budget_s": 900, "ctx": {"max_cp": 0x7E, "bv_ints": True, "max_digits": 6}}})
    for ep in ("e", "e2"):
        out.append({"name": f"build_default[{ep}]", "body": "body_build_default", "params": {"ep": ep},
                    "opts": {"budget_s": 900, "ctx": {"max_cp": 0x7E, "bv_ints": True, "max_digits": 6}}})
    for hm in (False, True):
        for ep, ns in (("u", [1, 3] if quick else [1, 2, 3, 4]), ("w", [0])):
            for n in ns:
                out.append({"name": f"domain[{ep},host_matching={hm},n={n}]", "body": "body_domain", "params": {"ep": ep, "n": n, "host_matching": hm},
                            "opts": {"budget_s": 900, "ctx": {"max_cp": 0x7E, "bv_ints": True, "max_digits": 6}}})
                if n <= 1:
                    for fac in ("submount", "endpoint-prefix"):
                        out.append({"name": f"domain[{ep},host_matching={hm},n={n},factory={fac}]", "body": "body_domain",
                                    "params": {"ep": ep, "n": n, "host_matching": hm, "factory": fac},
                                    "opts": {"budget_s": 900, "ctx": {"max_cp": 0x7E, "bv_ints": True, "max_digits": 6}}})
    for n in (range(1, 6) if quick else range(1, 8)):
        out.append({"name": f"match_build[n={n}]", "body": "body_match_build", "params": {"n": n},
                    "opts": {"budget_s": 900, "ctx": {"max_cp": 0x7E, "bv_ints": True, "max_digits": 6}}, "witness": n == 3})
    return out
