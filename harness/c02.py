"""C02 -- form data survives encode -> parse unchanged (multipart).

sansio.multipart.MultipartEncoder.send_event and MultipartDecoder (one-shot), with
http.parse_options_header for the Content-Disposition parameters, are executed
symbolically on parts whose names / filenames are solver text and whose payloads are
solver bytes; the decoded (kind, name, filename, payload) list must equal what was encoded.
"""
from __future__ import annotations

from harness.c01 import decode
from symex.poly import pall_in, pand, pconcat, pcontains, peq, pimplies, plen, pnone_in, pnot, por, pstartswith

PROPERTY = "C02"
BOUNDS = {
    "quick": {"payload": "<= 3 solver bytes (all 256 values, not containing '--'+boundary)", "names/filenames": "<= 2 solver characters over U+0020..U+07FF minus '\"' and '\\\\'",
              "parts": "field, file, field+file, file+field with a repeated name", "boundaries": ["b", "xyz"]},
    "thorough": {"payload": "<= 4 bytes", "names": "<= 3 characters"},
}
STUBS = ["urllib.parse.quote / unquote on solver text: per-byte / scan models (the real functions are table lookups that fork once per table entry); validated natively on every path. urllib.parse.urlencode, quote_plus and parse_qsl are interpreted from the stdlib source",
         "io.BytesIO inside test.stream_encode_multipart: harness stand-in MemIO (write/tell/seek/read/getvalue over solver bytes); os.fspath: identity on text"]
ASSUMPTIONS = ["names exclude the double quote, backslash, CR, LF and '%22' (the header syntax cannot carry them), as the property states",
               "payloads do not hold '--' + boundary at the start of a line (no encoder can carry a delimiter look-alike); in the middle of a line it is allowed"]
OUTSIDE = ["urlencoded keys/values longer than 2 (3) code points or above U+07FF; FormDataParser's stream reading of urlencoded bodies", "EnvironBuilder's temp-file spooling, random boundary and mimetypes guessing (the test client's encoder itself, test.encode_multipart, is covered with an in-memory stream stand-in)", "code points above U+07FF in names",
           "field values longer than 2 (3) code points through MultiPartParser"]

SHAPES = {"field": ["field"], "file": ["file"], "field+file": ["field", "file"], "file+field-same-name": ["file", "field"], "two-fields": ["field", "field"]}


def body_roundtrip(I, X, shape="field", n=2, nn=1, boundary="b", chunk=0, name_skel="{}", cut=0):
    from werkzeug.datastructures import Headers
    from werkzeug.sansio.multipart import Data, Epilogue, Field, File, MultipartEncoder, Preamble

    bnd = boundary.encode()
    kinds = SHAPES[shape]
    enc = I.call(MultipartEncoder, (bnd,))
    wire = I.call(enc.send_event, (Preamble(data=b""),))
    sent = []
    shared_name = None
    for i, kind in enumerate(kinds):
        if shape in ("file+field-same-name", "two-fields") and i == 1:
            name = shared_name
        else:
            name = X.str(f"name{i}", nn, minlen=nn, maxcp=0x7FF)
            X.assume(pall_in(name, [(0x20, 0x7FF)]))
            X.assume(pnone_in(name, [0x22, 0x5C, 0x7F]))
            if name_skel != "{}":
                # solver characters inside a fixed text (reaches '%XX'-looking names)
                pre, _, post = name_skel.partition("{}")
                name = pconcat(pre, name, post)
            X.assume(pnot(pcontains(name, "%22")))
            shared_name = name
        payload = X.bytes(f"payload{i}", n, minlen=n)
        # a delimiter look-alike is '--boundary' at the start of a line: at the very start of the
        # payload (the encoder's line break precedes it) or after a line break inside it.
        # '--boundary' in the middle of a line is ordinary data and must survive
        X.assume(pnot(pstartswith(payload, b"--" + bnd)))
        for lb in (b"\n", b"\r"):
            X.assume(pnot(pcontains(payload, lb + b"--" + bnd)))
        filename = None
        if kind == "file":
            filename = X.str(f"fn{i}", nn, minlen=nn, maxcp=0x7FF)
            X.assume(pall_in(filename, [(0x20, 0x7FF)]))
            X.assume(pnone_in(filename, [0x22, 0x5C, 0x7F]))
            if name_skel != "{}":
                pre, _, post = name_skel.partition("{}")
                filename = pconcat(pre, filename, post)
            X.assume(pnot(pcontains(filename, "%22")))
            ev = File(name=name, filename=filename, headers=Headers([("Content-Type", "text/plain")]))
        else:
            ev = Field(name=name, headers=Headers())
        wire = pconcat(wire, I.call(enc.send_event, (ev,)))
        wire = pconcat(wire, I.call(enc.send_event, (Data(data=payload, more_data=False),)))
        sent.append((kind, name, filename, payload))
    wire = pconcat(wire, I.call(enc.send_event, (Epilogue(data=b""),)))
    if cut:
        # one split of the encoder's output at a given offset
        pieces = [wire[:cut], wire[cut:]]
    elif chunk:
        total = plen(wire)
        pieces = [wire[i:i + chunk] for i in range(0, total, chunk)]
    else:
        pieces = [wire]
    parts, shp, err = decode(I, X, bnd, pieces)
    ok = err is None and len(parts) == len(sent)
    if ok:
        for (kind, name, filename, payload), got in zip(sent, parts):
            ok = pand(ok, got[0] == kind, peq(got[1], name), (got[2] is None) if filename is None else peq(got[2], filename),
                      peq(got[4], payload), got[5] is True)
            if kind == "file":
                ok = pand(ok, any(k.lower() == "content-type" and v == "text/plain" for k, v in got[3]))
    return ok, {"wire": wire, "parts": parts, "err": err}


class MemIO:
    """stands in for the io.BytesIO that test.stream_encode_multipart writes into (a C object):
    write / tell / seek(0) / read / getvalue over solver bytes"""

    def __init__(self, initial=b""):
        self.data, self.pos = initial, 0

    def write(self, b):
        self.data = pconcat(self.data, b)
        self.pos = plen(self.data)
        return plen(b)

    def tell(self):
        return self.pos

    def seek(self, pos, whence=0):
        self.pos = pos
        return pos

    def read(self, n=-1):
        total = plen(self.data)
        k = total - self.pos if n is None or n < 0 else min(n, total - self.pos)
        out = self.data[self.pos:self.pos + k]
        self.pos += k
        return out

    def getvalue(self):
        return self.data

    def close(self):
        pass


CONTENT_TYPES = {"plain": "text/plain", "params": "text/csv; header=present", "case": "Application/X-Demo+JSON", "sym": None}


def body_encode_parse(I, X, via="mapping", nn=1, n=1, ct="plain", buffer_size=64, order="field-first", fn_skel="{}"):
    """test.encode_multipart (the test client's encoder: stream_encode_multipart, _iter_data,
    FileStorage / FileMultiDict.add_file) -> formparser.MultiPartParser: the text field and the
    upload come back with the same names, value, file name (the empty one included), content
    type as given (parameters and letter case kept) and byte-exact content"""
    from collections.abc import Mapping

    from harness.c01 import Sink, Stream
    from werkzeug.datastructures import CombinedMultiDict, FileMultiDict, FileStorage, MultiDict
    from werkzeug.formparser import MultiPartParser
    from werkzeug.test import encode_multipart

    def text(label, k, lo=0x20):
        t = X.str(label, k, minlen=k, maxcp=0x7FF)
        X.assume(pall_in(t, [(lo, 0x7FF)]))
        X.assume(pnone_in(t, [0x22, 0x5C, 0x7F]))
        return t

    fname, uname = text("field_name", 1), text("upload_name", 1)
    value = X.str("value", 1, minlen=0, maxcp=0x7FF)
    X.assume(pnone_in(value, [13, 10, 0x2D]))
    filename = text("filename", nn)
    if fn_skel != "{}":
        # solver characters inside a fixed text (reaches file names such as '<x>')
        pre, _, post = fn_skel.partition("{}")
        filename = pconcat(pre, filename, post)
    payload = X.bytes("payload", n, minlen=n)
    X.assume(pnot(pstartswith(payload, b"--b")))
    for lb in (b"\n", b"\r"):
        X.assume(pnot(pcontains(payload, lb + b"--b")))
    ctype = CONTENT_TYPES[ct]
    if ctype is None:
        # a solver character in the subtype and in a parameter value (token characters)
        c1, c2 = X.str("ct_sub", 1, minlen=1, maxcp=0x7E), X.str("ct_param", 1, minlen=1, maxcp=0x7E)
        for c in (c1, c2):
            X.assume(pall_in(c, [(0x30, 0x39), (0x41, 0x5A), (0x61, 0x7A), (0x2D, 0x2E), (0x5F, 0x5F)]))
        ctype = pconcat("text/x-", c1, "; k=", c2)

    class PairMap(Mapping):
        def __init__(self, pairs):
            self.pairs = pairs

        def __getitem__(self, k):
            raise KeyError(k)

        def __iter__(self):
            return iter([k for k, _ in self.pairs])

        def __len__(self):
            return len(self.pairs)

        def items(self):
            return list(self.pairs)

    reader = MemIO(payload)
    if via == "mapping":
        fs = I.call(FileStorage, (), {"stream": reader, "filename": filename, "name": uname, "content_type": ctype})
        pairs = [(fname, value), (uname, fs)]
        data = PairMap(pairs if order == "field-first" else pairs[::-1])
    else:
        # what EnvironBuilder hands over: CombinedMultiDict([form, files]) with files built by add_file
        form = I.call(MultiDict, ([(fname, value)],))
        files = I.call(FileMultiDict, ())
        I.call(files.add_file, (uname, reader, filename, ctype))
        data = I.call(CombinedMultiDict, ([form, files] if order == "field-first" else [files, form],))
    boundary, body = I.call(encode_multipart, (data,), {"boundary": "b"})
    sinks = []

    def factory(total_content_length=None, filename=None, content_type=None, content_length=None):
        sinks.append(Sink())
        return sinks[-1]

    parser = I.call(MultiPartParser, (), {"stream_factory": factory, "buffer_size": buffer_size})
    try:
        form2, files2 = I.call(parser.parse, (Stream(body), b"b", None))
    except ValueError as e:
        return False, {"body": body, "error": repr(e)}
    fields = [(k, v) for k, v in I.call(form2.items, (), {"multi": True})]
    ups = [(k, v.filename, I.getattr(v, "content_type"), v.stream.content()) for k, v in I.call(files2.items, (), {"multi": True})]
    ok = len(fields) == 1 and len(ups) == 1
    if ok:
        ok = pand(peq(fields[0][0], fname), peq(fields[0][1], value), peq(ups[0][0], uname), ups[0][1] is not None and peq(ups[0][1], filename),
                  ups[0][2] is not None and peq(ups[0][2], ctype), peq(ups[0][3], payload))
    return ok, {"body": body, "fields": fields, "uploads": ups}


def body_urlencoded(I, X, nk=1, nv=1, repeated=False, via="parse_qsl"):
    """urls._urlencode -> urllib.parse.parse_qsl (as Request.form / Request.args use it):
    keys and values come back unchanged, in order, incl. repeated keys and empty values"""
    from urllib.parse import parse_qsl

    from werkzeug.urls import _urlencode

    k = X.str("k", nk, minlen=nk, maxcp=0x7FF)
    v = X.str("v", nv, minlen=nv, maxcp=0x7FF)
    X.assume(plen(k) > 0)
    for t in (k, v):
        X.assume(pnone_in(t, [(0xD800, 0xDFFF)]))
    items = [(k, v), ("z", "")] + ([(k, "2")] if repeated else [])
    qs = I.call(_urlencode, (items,))
    if via == "args":
        # the query string as a server hands it over (ASCII bytes), read through Request.args
        from werkzeug.sansio.request import Request

        r = Request("GET", "http", ("srv", 80), "", "/", qs.encode("ascii"), {}, "1.2.3.4")
        md = I.getattr(r, "args")
        back = [tuple(kv) for kv in I.call(md.items, (), {"multi": True})]
    else:
        back = I.call(parse_qsl, (qs,), {"keep_blank_values": True, "errors": "werkzeug.url_quote"})
    if via == "args":
        # a MultiDict keeps the values of one key together (in order), keys in first-seen order
        groups = []
        for key, val in items:
            for g in groups:
                if bool(peq(g[0], key)):
                    g[1].append(val)
                    break
            else:
                groups.append((key, [val]))
        items = [(key, val) for key, vals in groups for val in vals]
    ok = len(back) == len(items)
    if ok:
        for (a, b), (c, d) in zip(back, items):
            ok = pand(ok, peq(a, c), peq(b, d))
    # printable ASCII, and nothing that would end the query when it is put into a URL
    ok = pand(ok, pall_in(qs, [(0x21, 0x7E)]), pnone_in(qs, [0x23]))
    return ok, {"qs": qs, "back": [list(x) for x in back]}


def make_stubs():
    from harness.c07 import make_stubs as m

    st = m()
    import urllib.parse

    st.pop(urllib.parse.parse_qsl, None)  # here parse_qsl itself is interpreted from the stdlib source

    def unquote_stub(I, string, encoding="utf-8", errors="replace"):
        """urllib.parse.unquote looks every escape up in a 484-entry table (one fork per entry
        on solver text): replaced by a scan model, validated natively on every path"""
        from harness.c03 import unquote_model
        from symex.seq import SSeq

        if isinstance(string, SSeq) and string.kind == "str":
            return unquote_model(string, encoding, errors)
        return urllib.parse.unquote(string, encoding, errors)

    st[urllib.parse.unquote] = unquote_stub
    import io

    import os

    from symex.seq import SSeq

    st[io.BytesIO] = lambda I, *a: MemIO(*a)
    # os.fspath (C) is the identity on str / bytes
    st[os.fspath] = lambda I, p: p if isinstance(p, SSeq) else os.fspath(p)
    return st


def body_field_text(I, X, n=1, buffer_size=7, maxcp=0x7FF):
    """a text field whose value is n solver code points, UTF-8 encoded into a multipart body
    and parsed by formparser.MultiPartParser reading buffer_size bytes at a time: the form
    value is the text, wherever the read boundaries fall inside a multi-byte character"""
    from harness.c01 import run_parser

    text = X.str("value", n, minlen=n, maxcp=maxcp)
    X.assume(pall_in(text, [(0, 0xD7FF), (0xE000, 0x10FFFF)]))
    # '\r\n--b' inside the value would be a delimiter; keep CR / '-' out (covered by C01)
    X.assume(pnone_in(text, [13, 10, 0x2D]))
    raw = text.encode("utf-8")
    body = pconcat(b'--b\r\nContent-Disposition: form-data; name="a"\r\n\r\n', raw, b"\r\n--b--\r\n")
    err, fields, files, _ = run_parser(I, b"b", body, buffer_size)
    ok = err is None and len(fields) == 1 and len(files) == 0 and fields[0][0] == "a" and bool(peq(fields[0][1], text))
    return ok, {"err": err, "fields": fields}


def body_field_charset(I, X, label="ISO-8859-1", n=1, buffer_size=64):
    """a text part that declares one of the accepted charsets (in any letter case, quoted or
    not) is decoded with that charset: n solver bytes through formparser.MultiPartParser"""
    from harness.c01 import run_parser

    raw = X.bytes("value", n, minlen=n)
    X.assume(pnone_in(raw, [13, 10, 0x2D]))
    canon = label.strip('"').lower()
    if canon in ("us-ascii", "ascii"):
        X.assume(pall_in(raw, [(0, 0x7F)]))
        want = raw.decode("latin-1")
    elif canon == "iso-8859-1":
        want = raw.decode("latin-1")
    else:
        want = raw.decode("utf-8", "replace")
    body = pconcat(b'--b\r\nContent-Disposition: form-data; name="a"\r\nContent-Type: text/plain; charset=' + label.encode() + b"\r\n\r\n", raw, b"\r\n--b--\r\n")
    err, fields, files, _ = run_parser(I, b"b", body, buffer_size)
    ok = err is None and len(fields) == 1 and len(files) == 0 and fields[0][0] == "a" and bool(peq(fields[0][1], want))
    return ok, {"err": err, "fields": fields}


def obligations(tier, seed):
    out = []
    quick = tier == "quick"
    for n, maxcp in ([(1, 0x7FF), (2, 0x7FF), (1, 0x10FFFF)] if quick else [(1, 0x7FF), (2, 0x7FF), (3, 0x7FF), (1, 0x10FFFF), (2, 0x10FFFF)]):
        for bs in range(44, 56) if quick else range(1, 60):
            out.append({"name": f"field_text[n={n},maxcp={maxcp:#x},buffer_size={bs}]", "body": "body_field_text",
                        "params": {"n": n, "buffer_size": bs, "maxcp": maxcp},
                        "opts": {"budget_s": 900, "ctx": {"max_cp": maxcp, "loop_bound": 1000}}})
    for label in ("ISO-8859-1", "iso-8859-1", '"Iso-8859-1"', "UTF-8", "US-ASCII", "latin-1"):
        for n in ((1,) if quick else (1, 2)):
            out.append({"name": f"field_charset[{label},n={n}]", "body": "body_field_charset", "params": {"label": label, "n": n},
                        "opts": {"budget_s": 900, "ctx": {"max_cp": 0x7FF, "loop_bound": 1000}}})
    # urlencoded forms: urls._urlencode -> urllib.parse.parse_qsl (interpreted from its source,
    # with quote / unquote replaced by scan models)
    for nk, nv in ([(1, 0), (1, 1), (2, 1), (1, 2)] if quick else [(1, 0), (1, 1), (2, 1), (1, 2), (2, 2), (3, 1), (1, 3)]):
        for rep, via in ((False, "parse_qsl"), (True, "parse_qsl"), (True, "args")):
            out.append({"name": f"urlencoded[k={nk},v={nv},repeated={rep},via={via}]", "body": "body_urlencoded",
                        "params": {"nk": nk, "nv": nv, "repeated": rep, "via": via},
                        "opts": {"budget_s": 900, "ctx": {"max_cp": 0x7FF}}, "witness": nk == 1 and nv == 1 and not rep})
    # the test client's encoder -> MultiPartParser: file name (incl. the empty one), content type, content
    for via in ("mapping", "combined"):
        for nn, n, ct, order in ([(0, 1, "plain", "field-first"), (1, 1, "params", "field-first"), (1, 0, "case", "upload-first"), (1, 2, "sym", "field-first")] if quick else
                                 [(a, b, c, d) for a in (0, 1, 2) for b in (0, 1, 3) for c in CONTENT_TYPES for d in ("field-first", "upload-first")]):
            out.append({"name": f"encode_parse[{via},filename={nn},payload={n},ct={ct},{order}]", "body": "body_encode_parse",
                        "params": {"via": via, "nn": nn, "n": n, "ct": ct, "order": order},
                        "opts": {"budget_s": 900, "ctx": {"max_cp": 0x7FF, "loop_bound": 1000}}, "witness": via == "mapping" and nn == 1 and ct == "params"})
    for via in ("mapping", "combined"):
        for skel in ("<{}>", "<{}", "a{}.txt"):
            out.append({"name": f"encode_parse[{via},filename={skel!r}]", "body": "body_encode_parse",
                        "params": {"via": via, "nn": 1 if quick else 2, "n": 1, "ct": "plain", "fn_skel": skel},
                        "opts": {"budget_s": 900, "ctx": {"max_cp": 0x7FF, "loop_bound": 1000}}})
    # chunked decoding of the encoder's output with a realistic boundary
    for shape in ("field", "file"):
        for chunk in ([9, 16, 30] if quick else [5, 9, 12, 16, 23, 30, 41]):
            out.append({"name": f"roundtrip-chunked[{shape},chunk={chunk}]", "body": "body_roundtrip",
                        "params": {"shape": shape, "n": 2, "nn": 1, "boundary": "----long-boundary-0123456789", "chunk": chunk},
                        "opts": {"budget_s": 900, "ctx": {"max_cp": 0x7FF}}})
    for shape in ("field", "file"):
        for skel in ("%{}", "a%{}b", "{}%41"):
            out.append({"name": f"roundtrip[{shape},names={skel!r}]", "body": "body_roundtrip",
                        "params": {"shape": shape, "n": 1, "nn": 2, "boundary": "b", "name_skel": skel},
                        "opts": {"budget_s": 900, "ctx": {"max_cp": 0x7FF}}})
    # empty values followed by another part, the encoder's output split in two at every offset
    for shape in ("two-fields", "file+field-same-name"):
        for cut in range(1, 150, 2 if quick else 1):
            out.append({"name": f"roundtrip-split[{shape},empty,cut={cut}]", "body": "body_roundtrip",
                        "params": {"shape": shape, "n": 0, "nn": 1, "boundary": "--bnd-0123", "cut": cut},
                        "opts": {"budget_s": 900, "ctx": {"max_cp": 0x7FF}}})
    # a payload long enough to hold '--b' in the middle of a line
    out.append({"name": "roundtrip[file,boundary=b,payload=4,names=1]", "body": "body_roundtrip",
                "params": {"shape": "file", "n": 4, "nn": 1, "boundary": "b"}, "opts": {"budget_s": 900, "ctx": {"max_cp": 0x7FF}}})
    for shape in SHAPES:
        for boundary in ("b", "xyz"):
            for n in ([0, 1, 3] if quick else [0, 1, 2, 3, 4]):
                for nn in ([1, 2] if quick else [0, 1, 2, 3]):
                    if quick and len(SHAPES[shape]) == 2 and (n > 1 and nn > 1):
                        continue
                    out.append({"name": f"roundtrip[{shape},boundary={boundary},payload={n},names={nn}]", "body": "body_roundtrip",
                                "params": {"shape": shape, "n": n, "nn": nn, "boundary": boundary},
                                "opts": {"budget_s": 900, "ctx": {"max_cp": 0x7FF}}, "witness": shape == "file" and n == 1 and nn == 1 and boundary == "b"})
    return out
