"""Exact bit-level model of base64.b64encode / b64decode on solver bytes (standard alphabet).

binascii is C; the model computes the four sextets of every 3-byte group with bit-vector
arithmetic and maps them to / from the alphabet with range arithmetic (no table forks).
Decoding supports what the encoder emits (alphabet characters and '=' padding, length a
multiple of 4); any other text on a feasible path is reported Unsupported.  Validated
natively on every path like every other model.
"""
from __future__ import annotations

import z3


def _enc_char(s6):
    """sextet (8-bit BV holding 0..63) -> alphabet code (8-bit BV)"""
    return z3.If(z3.ULT(s6, 26), s6 + 65, z3.If(z3.ULT(s6, 52), s6 + 71, z3.If(z3.ULT(s6, 62), s6 - 4, z3.If(s6 == 62, z3.BitVecVal(43, 8), z3.BitVecVal(47, 8)))))


def _is_alpha(c):
    return z3.Or(z3.And(z3.UGE(c, 65), z3.ULE(c, 90)), z3.And(z3.UGE(c, 97), z3.ULE(c, 122)), z3.And(z3.UGE(c, 48), z3.ULE(c, 57)), c == 43, c == 47)


def _dec_char(c):
    return z3.If(z3.And(z3.UGE(c, 65), z3.ULE(c, 90)), c - 65, z3.If(z3.And(z3.UGE(c, 97), z3.ULE(c, 122)), c - 71,
                 z3.If(z3.And(z3.UGE(c, 48), z3.ULE(c, 57)), c + 4, z3.If(c == 43, z3.BitVecVal(62, 8), z3.BitVecVal(63, 8)))))


def b64encode_model(data):
    from symex.seq import SSeq

    es = data.celems()
    out = []
    for i in range(0, len(es), 3):
        grp = es[i:i + 3]
        b0 = grp[0]
        b1 = grp[1] if len(grp) > 1 else z3.BitVecVal(0, 8)
        b2 = grp[2] if len(grp) > 2 else z3.BitVecVal(0, 8)
        s = [z3.LShR(b0, 2), ((b0 & 3) << 4) | z3.LShR(b1, 4), ((b1 & 15) << 2) | z3.LShR(b2, 6), b2 & 63]
        chars = [z3.simplify(_enc_char(x)) for x in s]
        if len(grp) == 1:
            chars[2] = chars[3] = z3.BitVecVal(61, 8)
        elif len(grp) == 2:
            chars[3] = z3.BitVecVal(61, 8)
        out.extend(chars)
    return SSeq("bytes", out, len(out))


def b64decode_model(text):
    import binascii

    from symex.core import Unsupported, ctx
    from symex.seq import SSeq

    c = ctx()
    if text.kind == "str":
        if not c.decide(z3.And(*[z3.ULT(e, 128) for e in text.celems()]) if text.celems() else z3.BoolVal(True)):
            raise ValueError("string argument should contain only ASCII characters")
        es = [z3.Extract(7, 0, e) for e in text.celems()]
    else:
        es = list(text.celems())
    if len(es) % 4:
        # (the real decoder discards non-alphabet characters first; not modelled)
        if c.decide(z3.And(*[z3.Or(_is_alpha(e), e == 61) for e in es]) if es else z3.BoolVal(True)):
            raise binascii.Error("Incorrect padding")
        raise Unsupported("base64 text with characters outside the alphabet")
    out = []
    for i in range(0, len(es), 4):
        g = es[i:i + 4]
        last = i + 4 == len(es)
        npad = 0
        if last and c.decide(g[3] == 61):
            npad = 1
            if c.decide(g[2] == 61):
                npad = 2
        body = g[:4 - npad]
        if not c.decide(z3.And(*[_is_alpha(e) for e in body])):
            raise Unsupported("base64 text with characters outside the alphabet / inner padding")
        s = [_dec_char(e) for e in body] + [z3.BitVecVal(0, 8)] * npad
        b0 = (s[0] << 2) | z3.LShR(s[1], 4)
        b1 = ((s[1] & 15) << 4) | z3.LShR(s[2], 2)
        b2 = ((s[2] & 3) << 6) | s[3]
        out.extend([z3.simplify(x) for x in (b0, b1, b2)][:3 - npad])
    return SSeq("bytes", out, len(out))


def stubs():
    import base64

    from symex.seq import SSeq

    def b64encode_stub(I, s, altchars=None):
        if isinstance(s, SSeq) and altchars is None:
            return b64encode_model(s)
        return base64.b64encode(s, altchars)

    def b64decode_stub(I, s, altchars=None, validate=False):
        if isinstance(s, SSeq) and altchars is None:
            return b64decode_model(s)
        return base64.b64decode(s, altchars, validate)

    return {base64.b64encode: b64encode_stub, base64.b64decode: b64decode_stub}
