"""C06 -- every HTTP header serialiser is inverted by its parser.

Serialiser and parser of each pair are both executed symbolically from the real source
on values made of solver characters / solver integers; the query on each path is
parse(dump(v)) != v.  For header *text* h the normal-form law
parse(dump(parse(h))) == parse(h) is checked the same way.
"""
from __future__ import annotations

from symex.poly import pall_in, pand, pconcat, pcontains, peq, pimplies, plen, pnone_in, pnot, por

PROPERTY = "C06"
BOUNDS = {
    "quick": {"values": "1-2 values of <= 3 characters, every 8-bit code point except CR/LF", "ints": "unbounded solver ints rendered with <= 6 digits",
              "normal_form_text": "<= 4 characters", "dates": "every valid calendar date/time 1000-01-01..9999-12-31 at second resolution, UTC-aware (12 months) and naive (2 months quick / 12 thorough)"},
    "thorough": {"values": "<= 5 characters", "normal_form_text": "<= 5 characters"},
}
STUBS = ["datetime.astimezone between fixed offsets: calendar arithmetic with carries (harness/dtmodel.shift_fields), validated natively against the real datetime on every path", "base64.b64encode / b64decode on solver bytes: exact bit-level model (harness/b64model.py), validated natively on every path", "HTTP dates: the value is a datetime subclass whose calendar fields are solver ints and whose timetuple() is computed with the proleptic Gregorian weekday formula; datetime.datetime(...) on solver ints is a contract stub (range checks incl. month lengths) returning an object that carries the fields; email.utils.format_datetime / parsedate_to_datetime / _parsedate_tz are interpreted from the stdlib source. Each path is replayed natively with real datetime objects"]
ASSUMPTIONS = ["values exclude CR/LF; option-header values additionally exclude the literal %22 (documented to decode to a quote)",
               "ETags are non-empty and contain no double quote", "0 <= start < stop for ranges, as the property states"]
OUTSIDE = ["tzinfo objects other than fixed offsets (zoneinfo, custom classes); offsets are enumerated, not solver-quantified", "code points above U+00FF", "longer values"]

NOCRLF = [10, 13]


def _val(X, name, n):
    v = X.str(name, n, minlen=n, maxcp=0xFF)
    X.assume(pnone_in(v, NOCRLF))
    return v


def body_quote(I, X, n=2):
    from werkzeug import http

    v = _val(X, "v", n)
    allow = X.flag("allow_token")
    q = I.call(http.quote_header_value, (v,), {"allow_token": allow})
    back = I.call(http.unquote_header_value, (q,))
    return peq(back, v), {"quoted": q, "back": back}


def body_list(I, X, lens=(2, 1)):
    from werkzeug import http

    vals = [_val(X, f"v{i}", n) for i, n in enumerate(lens)]
    h = I.call(http.dump_header, (vals,))
    back = I.call(http.parse_list_header, (h,))
    ok = len(back) == len(vals)
    if ok:
        ok = pand(*[peq(a, b) for a, b in zip(back, vals)]) if vals else True
    return ok, {"header": h, "back": back}


def body_dict(I, X, n=2, with_none=False):
    from werkzeug import http

    v = _val(X, "v", n)
    d = {"k": v, "k2": None} if with_none else {"k": v, "z": "1"}
    h = I.call(http.dump_header, (d,))
    back = I.call(http.parse_dict_header, (h,))
    items = I.dict_items(back)
    exp = list(d.items())
    ok = len(items) == len(exp)
    if ok:
        for (ka, va), (kb, vb) in zip(items, exp):
            ok = pand(ok, peq(ka, kb), (va is None and vb is None) if (va is None or vb is None) else peq(va, vb))
    return ok, {"header": h, "back": items}


def body_options(I, X, n=2):
    from werkzeug import http

    v = _val(X, "v", n)
    X.assume(pnot(pcontains(v, "%22")))
    h = I.call(http.dump_options_header, ("x/y", {"k": v, "b": "1"}))
    main, opts = I.call(http.parse_options_header, (h,))
    items = I.dict_items(opts)
    ok = pand(peq(main, "x/y"), len(items) == 2)
    if len(items) == 2:
        ok = pand(ok, peq(items[0][0], "k"), peq(items[0][1], v), peq(items[1][0], "b"), peq(items[1][1], "1"))
    return ok, {"header": h, "main": main, "opts": items}


def body_set(I, X, lens=(2, 1)):
    from werkzeug import http
    from werkzeug.datastructures import HeaderSet

    vals = [_val(X, f"v{i}", n) for i, n in enumerate(lens)]
    hs = I.call(HeaderSet, (vals,))
    h = I.call(hs.to_header, ())
    back = I.call(http.parse_set_header, (h,))
    a, b = list(I.call(hs.__iter__, ())), list(I.call(back.__iter__, ()))
    ok = len(a) == len(b)
    if ok:
        ok = pand(*[peq(x, y) for x, y in zip(a, b)]) if a else True
    return ok, {"header": h, "back": b}


def body_etags(I, X, n=2):
    from werkzeug import http
    from werkzeug.datastructures import ETags

    s = _val(X, "strong", n)
    w = _val(X, "weak", n)
    for t in (s, w):
        X.assume(pnone_in(t, [34]))
    # (the same tag may sit in both sets: both memberships survive)
    e = I.call(ETags, ([s], [w]))
    h = I.call(e.to_header, ())
    back = I.call(http.parse_etags, (h,))
    ok = pand(I.call(back.is_strong, (s,)), I.call(back.is_weak, (w,)), I.call(back.contains_weak, (w,)),
              peq(I.call(back.is_strong, (w,)), peq(s, w)), peq(I.call(back.is_weak, (s,)), peq(s, w)), pnot(back.star_tag))
    ok = pand(ok, len(list(I.call(back.__iter__, ()))) == 1)
    return ok, {"header": h}


def body_range(I, X, kind="first-last"):
    from werkzeug import http
    from werkzeug.datastructures import Range

    a = X.int("a", 0, 99999)
    if kind == "first-last":
        b = X.int("b", 1, 100000)
        X.assume(a < b)
        ranges = [(a, b)]
    elif kind == "first-":
        ranges = [(a, None)]
    elif kind == "suffix":
        X.assume(a >= 1)
        ranges = [(-a, None)]
    else:
        b = X.int("b", 1, 100000)
        c = X.int("c", 0, 99999)
        X.assume(pand(a < b, b < c))
        ranges = [(a, b), (c, None)]
    r = I.call(Range, ("bytes", ranges))
    h = I.call(r.to_header, ())
    back = I.call(http.parse_range_header, (h,))
    ok = back is not None and back.units == "bytes" and len(back.ranges) == len(ranges)
    if ok:
        for (x1, y1), (x2, y2) in zip(back.ranges, ranges):
            ok = pand(ok, peq(x1, x2), (y1 is None and y2 is None) if (y1 is None or y2 is None) else peq(y1, y2))
    return ok, {"header": h, "back": None if back is None else [list(x) for x in back.ranges]}


def body_content_range(I, X, known_length=True):
    from werkzeug import http
    from werkzeug.datastructures import ContentRange

    a = X.int("a", 0, 99999)
    b = X.int("b", 1, 100000)
    X.assume(a < b)
    if known_length:
        L = X.int("L", 1, 100000)
        X.assume(b <= L)
    else:
        L = None
    cr = I.call(ContentRange, ("bytes", a, b, L))
    h = I.call(cr.to_header, ())
    back = I.call(http.parse_content_range_header, (h,))
    ok = back is not None
    if ok:
        ok = pand(back.units == "bytes", peq(back.start, a), peq(back.stop, b), (back.length is None) if L is None else peq(back.length, L))
    return ok, {"header": h}


def body_content_range_unsatisfied(I, X):
    """the unsatisfied form 'bytes */length' incl. length 0"""
    from werkzeug import http
    from werkzeug.datastructures import ContentRange

    L = X.int("L", 0, 100000)
    cr = I.call(ContentRange, ("bytes", None, None, L))
    h = I.call(cr.to_header, ())
    back = I.call(http.parse_content_range_header, (h,))
    ok = back is not None
    if ok:
        ok = pand(back.units == "bytes", back.start is None, back.stop is None, back.length is not None and peq(back.length, L))
    return ok, {"header": h}


def body_age(I, X):
    from werkzeug import http

    a = X.int("age", 0, 999999)
    h = I.call(http.dump_age, (a,))
    # parse_age returns a timedelta (C); compare through the integer it is built from
    back = I.call(http.parse_age, (h,))
    ok = back is not None and peq(getattr(back, "seconds_total", None) if hasattr(back, "seconds_total") else int(back.total_seconds()), a)
    return ok, {"header": h}


def body_cache_control(I, X, n=2):
    from werkzeug import http
    from werkzeug.datastructures import ResponseCacheControl

    cc = I.call(ResponseCacheControl, ())
    max_age = X.int("max_age", 0, 999999)
    v = _val(X, "private", n)
    X.assume(plen(v) >= 0)
    I.setattr(cc, "max_age", max_age)
    I.setattr(cc, "no_store", True)
    I.setattr(cc, "private", v)
    h = I.call(cc.to_header, ())
    back = I.call(http.parse_cache_control_header, (h, None, ResponseCacheControl))
    ok = pand(peq(I.getattr(back, "max_age"), max_age), I.getattr(back, "no_store") is True)
    pv = I.getattr(back, "private")
    ok = pand(ok, peq(pv, v) if plen(v) > 0 else True)
    return ok, {"header": h}


def body_csp(I, X, n=2):
    from werkzeug import http
    from werkzeug.datastructures import ContentSecurityPolicy

    v = _val(X, "v", n)
    # a CSP value cannot carry ';' and is stripped; the documented domain is source lists
    X.assume(pnone_in(v, [59]))
    X.assume(peq(v, v.strip()) if hasattr(v, "strip") else True)
    X.assume(plen(v) > 0)
    csp = I.call(ContentSecurityPolicy, ())
    I.setattr(csp, "default_src", v)
    I.setattr(csp, "img_src", "*")
    h = I.call(csp.to_header, ())
    back = I.call(http.parse_csp_header, (h,))
    ok = pand(peq(I.getattr(back, "default_src"), v), peq(I.getattr(back, "img_src"), "*"))
    return ok, {"header": h}


def body_www_auth(I, X, n=2, form="params"):
    from werkzeug.datastructures import WWWAuthenticate

    v = _val(X, "v", n)
    if form == "params":
        w = I.call(WWWAuthenticate, ("digest", {"realm": v, "qop": "auth"}))
    else:
        # token68 domain
        X.assume(pall_in(v, [(0x30, 0x39), (0x41, 0x5A), (0x61, 0x7A), 0x2D, 0x2E, 0x5F, 0x7E, 0x2B, 0x2F]))
        X.assume(plen(v) > 0)
        w = I.call(WWWAuthenticate, ("bearer", None, v))
    h = I.call(w.to_header, ())
    back = I.call(WWWAuthenticate.from_header, (h,))
    ok = back is not None
    if ok and form == "params":
        items = I.dict_items(back.parameters)
        ok = pand(back.type == "digest", len(items) == 2)
        if len(items) == 2:
            ok = pand(ok, peq(items[0][0], "realm"), peq(items[0][1], v), peq(items[1][1], "auth"))
    elif ok:
        ok = pand(back.type == "bearer", peq(back.token, v))
    return ok, {"header": h}


def body_normal_form(I, X, which="list", n=3):
    """parse(dump(parse(h))) == parse(h) for header text h"""
    from werkzeug import http

    h = X.str("h", n, minlen=n, maxcp=0xFF)
    X.assume(pnone_in(h, NOCRLF))
    if which == "list":
        p1 = I.call(http.parse_list_header, (h,))
        d = I.call(http.dump_header, (p1,))
        p2 = I.call(http.parse_list_header, (d,))
        ok = len(p1) == len(p2)
        if ok and p1:
            ok = pand(*[peq(a, b) for a, b in zip(p1, p2)])
        return ok, {"p1": p1, "dump": d, "p2": p2}
    if which == "set":
        p1 = I.call(http.parse_set_header, (h,))
        d = I.call(p1.to_header, ())
        p2 = I.call(http.parse_set_header, (d,))
        a, b = list(I.call(p1.__iter__, ())), list(I.call(p2.__iter__, ()))
        ok = len(a) == len(b)
        if ok and a:
            ok = pand(*[peq(x, y) for x, y in zip(a, b)])
        return ok, {"p1": a, "dump": d, "p2": b}
    if which == "range":
        p1 = I.call(http.parse_range_header, (h,))
        if p1 is None:
            return True, {"p1": None}
        d = I.call(p1.to_header, ())
        p2 = I.call(http.parse_range_header, (d,))
        ok = p2 is not None and p1.units == p2.units and len(p1.ranges) == len(p2.ranges)
        if ok:
            for (x1, y1), (x2, y2) in zip(p1.ranges, p2.ranges):
                ok = pand(ok, peq(x1, x2), (y1 is None and y2 is None) if (y1 is None or y2 is None) else peq(y1, y2))
        return ok, {"dump": d}
    raise ValueError(which)


import datetime as _dtmod

from harness.dtmodel import SymDatetime, valid_day


def body_if_range(I, X, n=2, skel="{}"):
    """If-Range with an entity-tag: IfRange(etag).to_header() parsed back gives that tag and no
    date, also for tags that look like an HTTP date"""
    from werkzeug import http
    from werkzeug.datastructures import IfRange

    t = X.str("tag", n, minlen=n, maxcp=0xFF)
    X.assume(pall_in(t, [(0x20, 0x7E), (0xA0, 0xFF)]))
    X.assume(pnone_in(t, [0x22]))
    pre, _, post = skel.partition("{}")
    tag = pconcat(pre, t, post)
    X.assume(plen(tag) > 0)
    hdr = I.call(IfRange(tag).to_header, ())
    back = I.call(http.parse_if_range_header, (hdr,))
    ok = pand(back.date is None, back.etag is not None and peq(back.etag, tag))
    return ok, {"header": hdr, "etag": back.etag, "has_date": back.date is not None}


def body_basic_auth(I, X, nu=1, npw=2):
    """Basic credentials: Authorization('basic', user, password).to_header() parsed back by
    Authorization.from_header gives the same user and password (UTF-8, base64 exact model);
    the user holds no ':', the password may"""
    from werkzeug.datastructures import Authorization

    user = X.str("user", nu, minlen=nu, maxcp=0x7FF)
    pw = X.str("pw", npw, minlen=npw, maxcp=0x7FF)
    X.assume(pnone_in(user, [0x3A]))
    a = I.call(Authorization, ("basic", {"username": user, "password": pw}))
    hdr = I.call(a.to_header, ())
    back = I.call(Authorization.from_header, (hdr,))
    if back is None:
        return False, {"header": hdr, "back": None}
    ok = pand(back.type == "basic", peq(I.getattr(back, "username"), user), peq(I.getattr(back, "password"), pw),
              pall_in(hdr, [(0x20, 0x7E)]))
    return ok, {"header": hdr}


class ZeroTz(_dtmod.tzinfo):
    """a zero-offset tzinfo that is not datetime.timezone (as zoneinfo / pytz / dateutil UTC are)"""

    def utcoffset(self, dt):
        return _dtmod.timedelta(0)

    def dst(self, dt):
        return None

    def tzname(self, dt):
        return "Z"


def _tz(offset):
    """'+0530' -> a real fixed-offset tzinfo"""
    if offset == "custom-zero":
        return ZeroTz(), 0
    sec = (int(offset[1:3]) * 3600 + int(offset[3:5]) * 60) * (1 if offset[0] == "+" else -1)
    return _dtmod.timezone(_dtmod.timedelta(seconds=sec)), sec


def body_http_date(I, X, aware=True, month=1, offset=None, via="http_date"):
    """http_date -> parse_date returns the datetime (second resolution, UTC; naive input is
    taken as UTC), for every valid calendar date in the years 1000..9999"""
    from werkzeug import http

    y = X.int("y", 1000, 9999)
    m = month   # enumerated (12 obligations); everything else is solver-quantified
    d = X.int("d", 1, 31)
    hh, mi, ss = X.int("hh", 0, 23), X.int("mi", 0, 59), X.int("ss", 0, 59)
    valid_day(X, y, m, d)
    tz, off = (_dtmod.timezone.utc if aware else None), 0
    if offset is not None:
        # a datetime in another fixed offset: the header carries the same instant in GMT
        tz, off = _tz(offset)
        # converting the first / last day of the calendar to UTC overflows datetime itself
        if off:
            X.assume(pand(y >= 1001, y <= 9998))
    if X.symbolic:
        dt = SymDatetime((y, m, d, hh, mi, ss), tz)
    else:
        dt = _dtmod.datetime(y, m, d, hh, mi, ss, tzinfo=tz)
    if via == "if_range":
        # IfRange(date=...).to_header() -> parse_if_range_header: the date, and no entity-tag
        from werkzeug.datastructures import IfRange

        text = I.call(IfRange(date=dt).to_header, ())
        ir = I.call(http.parse_if_range_header, (text,))
        back = ir.date if ir.etag is None else None
    else:
        text = I.call(http.http_date, (dt,))
        back = I.call(http.parse_date, (text,))
    if back is None:
        return False, {"text": text, "back": None}
    f = getattr(back, "fields", None) or (back.year, back.month, back.day, back.hour, back.minute, back.second)
    tz_ok = isinstance(back.tzinfo, _dtmod.tzinfo) and back.tzinfo.utcoffset(None) == _dtmod.timedelta(0)
    if offset is None:
        ok = pand(tz_ok, *[peq(a, b) for a, b in zip(f, (y, m, d, hh, mi, ss))])
    else:
        # the same instant expressed in UTC (calendar arithmetic with carries, no datetime involved)
        from harness.dtmodel import shift_fields

        ok = pand(tz_ok, *[peq(a, b) for a, b in zip(f, shift_fields((y, m, d, hh, mi, ss), -off))])
    # RFC 9110 IMF-fixdate shape: 29 characters, day name and ' GMT'
    ok = pand(ok, plen(text) == 29, peq(text[-4:], " GMT"), peq(text[3:5], ", "))
    return ok, {"text": text}


def make_stubs():
    from harness import b64model
    from harness.c07 import make_stubs as m

    st = m()
    st.update(b64model.stubs())   # exact base64 (C07 uses a contract stub: it only needs 'some bytes or an error')
    return st


def obligations(tier, seed):
    out = []
    for skel, ns in (("{}", [0, 1, 2, 3]), ("Thu, 01 Jan 1970 00:00:{} GMT", [2]), ("1 Jan {} 0:0", [2, 4])):
        for n in ns:
            out.append({"name": f"if_range[{skel},n={n}]", "body": "body_if_range", "params": {"n": n, "skel": skel},
                        "opts": {"budget_s": 900, "ctx": {"max_cp": 0xFF, "bv_ints": True, "max_digits": 6}}})
    for nu, npw in ([(1, 1), (1, 2), (2, 1), (0, 2)] if tier == "quick" else [(a, b) for a in range(0, 4) for b in range(0, 4)]):
        out.append({"name": f"basic_auth[user={nu},password={npw}]", "body": "body_basic_auth", "params": {"nu": nu, "npw": npw},
                    "opts": {"budget_s": 900, "ctx": {"max_cp": 0x7FF}}})
    for aware in (True, False):
        for month in (range(1, 13) if aware or tier != "quick" else (2, 12)):
            out.append({"name": f"http_date[aware={aware},month={month}]", "body": "body_http_date", "params": {"aware": aware, "month": month},
                        "opts": {"budget_s": 900, "ctx": {"bv_ints": True, "max_digits": 6}}, "witness": aware and month == 3})
    quick = tier == "quick"
    # datetimes in another fixed offset (the header carries the same instant in GMT), and dates
    # through IfRange(date=...).to_header() -> parse_if_range_header
    for month, offset in ([(1, "+1400"), (3, "custom-zero")] if quick else
                          [(mo, of) for mo in (1, 2, 3, 6, 12) for of in ("+0530", "-1100", "+1400", "-0001", "+0000", "-2359", "custom-zero")]):
        out.append({"name": f"http_date[offset={offset},month={month}]", "body": "body_http_date", "params": {"aware": True, "month": month, "offset": offset},
                    "opts": {"budget_s": 900, "ctx": {"bv_ints": True, "max_digits": 6}}})
    for month, offset in ([(2, None)] if quick else [(mo, of) for mo in (1, 2, 7, 12) for of in (None, "+0130", "-0800")]):
        out.append({"name": f"if_range_date[offset={offset},month={month}]", "body": "body_http_date",
                    "params": {"aware": True, "month": month, "offset": offset, "via": "if_range"},
                    "opts": {"budget_s": 900, "ctx": {"bv_ints": True, "max_digits": 6}}})
    N = [0, 1, 2, 3] if quick else [0, 1, 2, 3, 4, 5]
    ctx = {"max_cp": 0xFF, "bv_ints": True}

    def add(name, body, params, witness=False, budget=600):
        out.append({"name": name, "body": body, "params": params, "opts": {"budget_s": budget, "ctx": ctx}, "witness": witness})

    for n in N:
        add(f"quote[n={n}]", "body_quote", {"n": n}, n == 2)
        add(f"dict[n={n}]", "body_dict", {"n": n, "with_none": False}, n == 2)
        add(f"dict-none[n={n}]", "body_dict", {"n": n, "with_none": True})
        add(f"options[n={n}]", "body_options", {"n": n}, n == 2)
        add(f"csp[n={n}]", "body_csp", {"n": n}, n == 2)
        add(f"www-auth-params[n={n}]", "body_www_auth", {"n": n, "form": "params"}, n == 2)
        add(f"www-auth-token[n={n}]", "body_www_auth", {"n": n, "form": "token"})
        add(f"cache-control[n={n}]", "body_cache_control", {"n": n}, n == 2)
    for n in (N[1:3] if quick else N[1:5]):
        add(f"etags[n={n}]", "body_etags", {"n": n}, n == 2)
    for lens in ([(0,), (1,), (3,), (1, 1), (2, 1), (0, 2)] if quick else [(n,) for n in range(6)] + [(a, b) for a in range(4) for b in range(4)]):
        add(f"list[lens={lens}]", "body_list", {"lens": list(lens)}, lens == (2, 1))
        add(f"set[lens={lens}]", "body_set", {"lens": list(lens)}, lens == (2, 1))
    for kind in ("first-last", "first-", "suffix", "multi"):
        add(f"range[{kind}]", "body_range", {"kind": kind}, kind == "first-last")
    for kl in (True, False):
        add(f"content-range[length={kl}]", "body_content_range", {"known_length": kl}, kl)
    add("content-range[unsatisfied]", "body_content_range_unsatisfied", {}, True)
    add("age", "body_age", {}, True)
    if quick:
        add("options[n=5]", "body_options", {"n": 5})
        add("dict[n=5]", "body_dict", {"n": 5, "with_none": False})
    for which in ("list", "set", "range"):
        for n in (range(0, 5) if quick else range(0, 6)):
            add(f"normal-form[{which},n={n}]", "body_normal_form", {"which": which, "n": n}, n == 3, 900)
    return out
