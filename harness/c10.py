"""C10 -- configured form limits are enforced and are pure guards.

MultipartDecoder.receive_data / next_event (buffer growth check, part counter),
MultiPartParser.parse (accumulated field size), FormDataParser._parse_urlencoded
(declared length check) and wsgi.get_input_stream (declared length / maximum) are
executed symbolically with the limits as solver integers (or None).
"""
from __future__ import annotations

from harness.c01 import NL, Sink, Stream
from symex.poly import pall_in, pand, pconcat, peq, pimplies, plen, pnone_in, pnot, por

PROPERTY = "C10"
BOUNDS = {
    "quick": {"field_payload_bytes": "0..4", "parts": "1..3", "limits": "symbolic ints 0..len(body)+2 or None", "buffer_sizes": [3, 16, "len+1"]},
    "thorough": {"field_payload_bytes": "0..6", "parts": "1..4", "limits": "symbolic ints or None", "buffer_sizes": "1..20 and len+1"},
}
STUBS = ["input stream stub (full reads of buffer_size)", "stream_factory stub collecting file writes"]
ASSUMPTIONS = ["header blocks concrete; non-file payload bytes ASCII (charset decoding is then the identity)"]
OUTSIDE = ["bodies longer than the bound", "default Request-level limits (constants)", "real sockets / wsgi servers"]


def make_body(K, boundary, payloads):
    """payloads: list of (kind, payload)"""
    body = b""
    for i, (kind, pl) in enumerate(payloads):
        disp = b'Content-Disposition: form-data; name="p%d"' % i + (b'; filename="f"' if kind == "file" else b"")
        body = pconcat(body, b"--" + boundary + K + disp + K + K, pl, K)
    return pconcat(body, b"--" + boundary + b"--" + K)


def run_parser(I, boundary, body, buffer_size, M, P):
    from werkzeug.exceptions import RequestEntityTooLarge
    from werkzeug.formparser import MultiPartParser

    sinks = []

    def factory(total_content_length=None, filename=None, content_type=None, content_length=None):
        sinks.append(Sink())
        return sinks[-1]

    p = I.call(MultiPartParser, (), {"stream_factory": factory, "buffer_size": buffer_size,
                                     "max_form_memory_size": M, "max_form_parts": P})
    st = Stream(body)
    try:
        form, files = I.call(p.parse, (st, boundary, None))
    except RequestEntityTooLarge:
        return "413", None, None
    except ValueError:
        return "ValueError", None, None
    fields = [(k, v) for k, v in form.items(multi=True)]
    fl = [(k, v.filename, v.stream.content()) for k, v in files.items(multi=True)]
    return None, fields, fl


def body_parser_limits(I, X, framing="CRLF", shape=("field",), n=2, buffer_size=16, use_M=True, use_P=True, pad=0, tail_pad=0):
    boundary = b"b"
    K = NL[framing]
    payload = X.bytes("payload", n, minlen=n)
    if pad:
        # a long field: `pad` concrete bytes around the symbolic ones, so that the field is
        # larger than the header block and spans several reads
        payload = pconcat(b"p" * (pad // 2), payload, b"q" * (pad - pad // 2))
    X.assume(pnone_in(payload, [(128, 255)]))
    if framing == "LF":
        X.assume(pnone_in(payload, [13]))
    elif framing == "CR":
        X.assume(pnone_in(payload, [10]))
    from symex.poly import pcontains

    # well-formed body: the payload contains no delimiter look-alike
    X.assume(pnot(pcontains(pconcat(payload, K), b"--" + boundary)))
    payloads = []
    for i, kind in enumerate(shape):
        # (tail_pad: the later parts are long too -- a long field right after a file part)
        payloads.append((kind, payload if i == 0 else (b"xy" if not tail_pad else b"t" * tail_pad)))
    body = make_body(K, boundary, payloads)
    total = plen(body)
    if buffer_size <= 0:
        buffer_size = total + 1
    M = X.int("M", 0, total + 2) if use_M else None
    P = X.int("P", 0, len(shape) + 1) if use_P else None
    ref = run_parser(I, boundary, body, buffer_size, None, None)
    got = run_parser(I, boundary, body, buffer_size, M, P)
    ok = ref[0] is None
    nfields = [plen(pl) for kind, pl in payloads if kind == "field"]
    if got[0] is None:
        # pure guard: same result as without limits
        ok = pand(ok, peq(ref[1], got[1]), len(ref[2]) == len(got[2]))
        for a, b in zip(ref[2] or [], got[2] or []):
            ok = pand(ok, a[0] == b[0], a[1] == b[1], peq(a[2], b[2]))
        # success implies every limit was respected
        if M is not None:
            for fl in nfields:
                ok = pand(ok, fl <= M)
            # ... and the decoder never held more than M undelimited bytes: the first read
            # alone puts min(buffer_size, total) bytes into its buffer
            ok = pand(ok, min(buffer_size, total) <= M)
        if P is not None:
            ok = pand(ok, len(shape) <= P)
    else:
        ok = pand(ok, got[0] == "413")
        # raised: allowed only if some limit is configured
        ok = pand(ok, (M is not None) or (P is not None))
        if M is None and P is not None:
            ok = pand(ok, len(shape) > P)
    return ok, {"ref": ref, "got": got}


def decode_limited(I, X, boundary, chunks, M, P):
    from werkzeug.exceptions import RequestEntityTooLarge
    from werkzeug.sansio.multipart import Data, Epilogue, Field, File, MultipartDecoder, NeedData

    d = I.call(MultipartDecoder, (boundary,), {"max_form_memory_size": M, "max_parts": P})
    events = []
    nparts = 0
    inv = True
    try:
        for ch in list(chunks) + [None]:
            I.call(d.receive_data, (ch,))
            if M is not None:
                inv = pand(inv, plen(d.buffer) <= M)
            while True:
                ev = I.call(d.next_event, ())
                if isinstance(ev, NeedData):
                    break
                if isinstance(ev, (Field, File)):
                    nparts += 1
                    events.append(("part", ev.name))
                elif isinstance(ev, Data):
                    events.append(("data", ev.data, ev.more_data))
                elif isinstance(ev, Epilogue):
                    events.append(("epilogue",))
                    break
                else:
                    events.append((type(ev).__name__,))
            if events and events[-1] == ("epilogue",):
                break
    except RequestEntityTooLarge:
        return "413", events, nparts, inv
    except ValueError:
        return "ValueError", events, nparts, inv
    return None, events, nparts, inv


def body_decoder_limits(I, X, framing="CRLF", nparts=2, n=2, cut=10):
    """decoder level: buffer never exceeds the limit after receive_data; part counter;
    a limited run that succeeds yields exactly the unlimited run's events"""
    boundary = b"b"
    K = NL[framing]
    payload = X.bytes("payload", n, minlen=n)
    if framing == "LF":
        X.assume(pnone_in(payload, [13]))
    elif framing == "CR":
        X.assume(pnone_in(payload, [10]))
    from symex.poly import pcontains

    X.assume(pnot(pcontains(pconcat(payload, K), b"--" + boundary)))
    payloads = [("field", payload)] + [("field", b"q")] * (nparts - 1)
    body = make_body(K, boundary, payloads)
    total = plen(body)
    if cut > total:
        X.assume(False)
    chunks = [body[: total - cut], body[total - cut:]]
    M = X.int("M", 0, total + 2)
    P = X.int("P", 0, nparts + 1)
    ref = decode_limited(I, X, boundary, chunks, None, None)
    got = decode_limited(I, X, boundary, chunks, M, P)
    ok = pand(got[3], ref[0] is None)
    if got[0] is None:
        ok = pand(ok, len(ref[1]) == len(got[1]), got[2] <= P)
        for a, b in zip(ref[1], got[1]):
            ok = pand(ok, len(a) == len(b) and a[0] == b[0])
            if a[0] == "data" and len(a) == len(b):
                ok = pand(ok, peq(a[1], b[1]), a[2] == b[2])
    else:
        ok = pand(ok, got[0] == "413")
        # a raise is justified by the part counter or by the buffer limit
        ok = pand(ok, por(nparts > P, M < total))
    # more parts than allowed are never accepted
    ok = pand(ok, pimplies(nparts > P, got[0] == "413"))
    return ok, {"ref": ref[:3], "got": got[:3]}


def ref_declared(cl, chunked):
    """independent reading of the documented meaning of CONTENT_LENGTH"""
    from symex.poly import pall_in, pint, pstartswith

    if cl is None or chunked:
        return None
    t = cl.strip()
    neg = bool(pstartswith(t, "-"))
    digs = t[1:] if neg else t
    if plen(digs) == 0 or not pall_in(digs, [(48, 57)]):
        return 0
    if neg:
        return 0
    return pint(digs)


def body_input_stream(I, X, cl_kind="text", via="function"):
    """get_input_stream / get_content_length decision table with symbolic CONTENT_LENGTH text
    and symbolic max_content_length"""
    import io

    from werkzeug.exceptions import RequestEntityTooLarge
    from werkzeug.wsgi import LimitedStream, get_input_stream

    raw = io.BytesIO(b"0123456789")
    environ = {"wsgi.input": raw}
    cl = None
    if cl_kind != "absent":
        cl = X.str("cl", 3, minlen=0)
        environ["CONTENT_LENGTH"] = cl
    terminated = X.flag("terminated")
    chunked = X.flag("chunked")
    if terminated:
        environ["wsgi.input_terminated"] = True
    if chunked:
        environ["HTTP_TRANSFER_ENCODING"] = "chunked"
    has_max = X.flag("has_max")
    mx = X.int("max", 0, 1200) if has_max else None
    if via == "request":
        # the same table through Request.stream with Request.max_content_length (safe fallback on)
        from werkzeug.wrappers import Request

        class Req(Request):
            max_content_length = mx

        environ.update({"REQUEST_METHOD": "POST", "wsgi.url_scheme": "http", "SERVER_NAME": "s", "SERVER_PORT": "80", "PATH_INFO": "/", "QUERY_STRING": ""})
        safe = True
        req = I.call(Req, (environ,))
        try:
            s = I.getattr(req, "stream")
        except RequestEntityTooLarge:
            s = None
    else:
        safe = X.flag("safe_fallback")
        try:
            s = I.call(get_input_stream, (environ,), {"safe_fallback": safe, "max_content_length": mx})
        except RequestEntityTooLarge:
            s = None
    if s is None:
        kind = "413"
    elif s is raw:
        kind = "raw"
    elif isinstance(s, LimitedStream):
        kind = "limited"
    else:
        kind = "empty"
    limit = s.limit if kind == "limited" else None
    is_max = s._limit_is_max if kind == "limited" else None
    obs = {"kind": kind, "limit": limit, "is_max": is_max}
    # reference decision table (from the documentation of get_input_stream)
    declared = ref_declared(cl, chunked)
    if declared is not None and mx is not None and bool(declared > mx):
        exp = ("413", None, None)
    elif terminated:
        exp = ("limited", mx, True) if mx is not None else ("raw", None, None)
    elif declared is None:
        exp = ("empty", None, None) if safe else ("raw", None, None)
    else:
        exp = ("limited", declared, False)
    ok = kind == exp[0]
    if ok and kind == "limited":
        ok = pand(peq(limit, exp[1]), is_max == exp[2])
    return ok, obs


def body_urlencoded_limits(I, X, n=2, with_cl=False, use_mfms=False, wide=False):
    """urlencoded forms (FormDataParser.parse_from_environ -> get_input_stream ->
    _parse_urlencoded): limits are pure guards -- under max_content_length (server-terminated
    stream, with or without CONTENT_LENGTH) or max_form_memory_size the parse either raises
    RequestEntityTooLarge or returns exactly the unlimited result; never a truncated form"""
    from harness.c01 import Stream
    from werkzeug.exceptions import RequestEntityTooLarge
    from werkzeug.formparser import FormDataParser

    # value characters: ASCII letters / digits or raw two-byte UTF-8 text (limits count BYTES)
    v = X.str("v", n, minlen=n, maxcp=0x7FF)
    X.assume(pall_in(v, [(0xA1, 0x7FF)] if wide else [(0x30, 0x39), (0x61, 0x7A)]))
    body = pconcat("k=", v, "&z=1").encode("utf-8")
    total = 2 + 4
    for i in range(n):
        total += 1 if bool(pall_in(v[i:i + 1], [(0, 0x7F)])) else 2
    M = X.int("M", total - 2, total + 1) if wide else X.int("M", 0, total + 2)

    def environ():
        e = {"wsgi.input": Stream(body), "wsgi.input_terminated": True, "CONTENT_TYPE": "application/x-www-form-urlencoded", "REQUEST_METHOD": "POST"}
        if with_cl:
            e["CONTENT_LENGTH"] = str(total)
        return e

    def items(res):
        return [tuple(kv) for kv in I.call(res[1].items, (), {"multi": True})]

    if use_mfms and not with_cl:
        # known finding: without a declared length the memory limit is never applied to
        # urlencoded data (the whole stream is read into memory)
        X.known("C10-urlencoded-memory-limit-needs-content-length", M < total)
    ref = items(I.call(FormDataParser().parse_from_environ, (environ(),)))
    kw = {"max_form_memory_size": M} if use_mfms else {"max_content_length": M}
    fp = I.call(FormDataParser, (), kw)
    try:
        got = items(I.call(fp.parse_from_environ, (environ(),)))
    except RequestEntityTooLarge:
        # raising is only justified when the body does not fit
        return (M <= total) if not isinstance(M <= total, bool) else (M <= total), {"outcome": "413"}
    ok = len(got) == len(ref)
    if ok:
        for (a, b), (c, d) in zip(got, ref):
            ok = pand(ok, peq(a, c), peq(b, d))
    if use_mfms:
        # the whole body was held in memory as one string: it must fit the limit
        ok = pand(ok, total <= M)
    return ok, {"outcome": [list(x) for x in got]}


def body_terminated_reads(I, X, N=6, kinds=("read", "read"), has_readinto=False):
    """a server-terminated stream under max_content_length is a LimitedStream(is_max=True): never
    more than the maximum is consumed from the server's input, whatever the read sizes
    (shared with C09, where the same body is explored over more operation sequences)"""
    from harness.c09 import body_limited

    return body_limited(I, X, N=N, kinds=kinds, has_readinto=has_readinto)


def make_stubs():
    from harness.c02 import make_stubs as m

    return m()


def obligations(tier, seed):
    extra = []
    for n in ((1,) if tier == "quick" else (0, 1, 2, 3)):
        for with_cl in (False, True):
            for use_mfms in (False, True):
                extra.append({"name": f"urlencoded_limits[n={n},cl={with_cl},mfms={use_mfms}]", "body": "body_urlencoded_limits",
                              "params": {"n": n, "with_cl": with_cl, "use_mfms": use_mfms},
                              "opts": {"budget_s": 900, "ctx": {"max_cp": 0x7FF, "bv_ints": True}}})
    for n in ((1,) if tier == "quick" else (1, 2)):
        extra.append({"name": f"urlencoded_limits[n={n},cl=True,mfms=True,two-byte-text]", "body": "body_urlencoded_limits",
                      "params": {"n": n, "with_cl": True, "use_mfms": True, "wide": True},
                      "opts": {"budget_s": 900, "ctx": {"max_cp": 0x7FF, "bv_ints": True}}})
    out = []
    quick = tier == "quick"
    shapes = [("field",), ("field", "field"), ("field", "file"), ("file", "field", "field")]
    if not quick:
        shapes.append(("field", "field", "field", "file"))
    for framing in (["CRLF"] if quick else ["CRLF", "LF", "CR"]):
        for shape in shapes:
            for n in ([0, 2, 4] if quick else [0, 1, 3, 6]):
                for bs in ([3, 16, 0] if quick else [1, 3, 8, 20, 0]):
                    if quick and bs == 3 and n > 2:
                        continue
                    if n == 6 and bs in (1, 3):
                        continue  # (did not finish within the per-obligation budget in the measured thorough run)
                    for use_M, use_P in ([(True, True)] if quick else ([(True, True), (True, False), (False, True)] if framing == "CRLF" else [(True, True)])):
                        out.append({
                            "name": f"parser_limits[{framing},{'+'.join(shape)},n={n},bs={bs},M={use_M},P={use_P}]",
                            "body": "body_parser_limits",
                            "params": {"framing": framing, "shape": list(shape), "n": n, "buffer_size": bs, "use_M": use_M, "use_P": use_P},
                            "opts": {"budget_s": 600, "ctx": {"loop_bound": 1000}},
                            "witness": n == 2 and bs == 16 and shape == ("field",),
                        })
    for shape in [("field",), ("field", "file")]:
        for pad in ([70] if quick else [70, 130]):
            for bs in ([16, 48] if quick else [7, 16, 32, 48, 64, 100]):
                out.append({
                    "name": f"parser_limits_long_field[{'+'.join(shape)},pad={pad},bs={bs}]",
                    "body": "body_parser_limits",
                    "params": {"framing": "CRLF", "shape": list(shape), "n": 1, "buffer_size": bs, "use_M": True, "use_P": False, "pad": pad},
                    "opts": {"budget_s": 900, "ctx": {"loop_bound": 1000}},
                })
    for shape in [("file", "field"), ("file", "field", "field"), ("field", "file", "field")]:
        for bs in ([16] if quick else [7, 16, 48]):
            out.append({
                "name": f"parser_limits_long_field[{'+'.join(shape)},tail_pad=70,bs={bs}]",
                "body": "body_parser_limits",
                "params": {"framing": "CRLF", "shape": list(shape), "n": 1, "buffer_size": bs, "use_M": True, "use_P": False, "pad": 0, "tail_pad": 70},
                "opts": {"budget_s": 900, "ctx": {"loop_bound": 1000}},
            })
    for framing in ["CRLF"] if quick else ["CRLF", "LF", "CR"]:
        for nparts in (1, 2, 3):
            for n in ([0, 3] if quick else [0, 2, 4]):
                K = NL[framing]
                total = len(make_body(K, b"b", [("field", b"x" * n)] + [("field", b"q")] * (nparts - 1)))
                cuts = range(0, total + 1, 4 if quick else (1 if framing == "CRLF" else 3))
                for cut in cuts:
                    out.append({
                        "name": f"decoder_limits[{framing},parts={nparts},n={n},cut={cut}]",
                        "body": "body_decoder_limits",
                        "params": {"framing": framing, "nparts": nparts, "n": n, "cut": cut},
                        "opts": {"budget_s": 600},
                        "witness": n == 3 and cut == 4 and nparts == 2,
                    })
    for kinds in (("read", "read"), ("read", "readall"), ("readinto", "read")):
        for ri in (False, True):
            out.append({"name": f"terminated_reads[{'+'.join(kinds)},readinto={ri}]", "body": "body_terminated_reads",
                        "params": {"N": 6, "kinds": list(kinds), "has_readinto": ri},
                        "opts": {"ctx": {"fork_indices": False, "buf_cap": 8}, "budget_s": 900, "stubs_from": "harness.c09"}})
    for k in ("text", "absent"):
        out.append({"name": f"input_stream[{k}]", "body": "body_input_stream", "params": {"cl_kind": k},
                    "opts": {"budget_s": 900, "ctx": {"max_cp": 0x7FF}}, "witness": k == "text"})
        out.append({"name": f"input_stream[{k},via=Request.stream]", "body": "body_input_stream", "params": {"cl_kind": k, "via": "request"},
                    "opts": {"budget_s": 900, "ctx": {"max_cp": 0x7FF}, "stubs_from": "harness.c07"}})
    return out + extra
