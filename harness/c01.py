"""C01 -- multipart decoding does not depend on how the body is chunked.

The real MultipartDecoder (receive_data / next_event / _parse_data / last_newline /
_parse_headers and its live regexes) is executed symbolically end-to-end from the
PREAMBLE state on a body whose part payload is a vector of solver bytes (all 256
values each); the body is fed in one piece and in 2 (quick) or 3 (thorough) chunks at
given split offsets and the two event streams are compared inside one solver query.
One level up, MultiPartParser.parse is run over a stream stub with solver-chosen
fragment sizes.
"""
from __future__ import annotations

from symex.poly import pand, pconcat, pcontains, peq, pimplies, plen, pnone_in, pnot, por

PROPERTY = "C01"
BOUNDS = {
    "quick": {"payload_bytes_max": 4, "chunks": 2, "boundary": "b'b' and a 70-byte boundary", "framing": ["CRLF", "LF", "CR"],
              "transport_padding": "1 and 12 blanks after every delimiter (thorough: 1, 9, 12, 20), with / without a preamble"},
    "thorough": {"payload_bytes_max": 4, "chunks": 3, "boundary": ["b'b'", "b'-b'", "b'bb'"], "framing": ["CRLF", "LF", "CR"]},
}
STUBS = ["none for the decoder kernel (dataclass constructors run natively)",
         "parser level: input stream stub returning min(request, fresh fragment size) bytes per read"]
ASSUMPTIONS = [
    "bare-LF / bare-CR framed bodies carry payloads free of the other newline kind (as the property states)",
    "preamble / epilogue bytes are not compared (as the property states)",
    "header block is concrete; payload bytes are symbolic over all 256 values",
    "parser level: non-file field payloads longer than one byte are restricted to ASCII so that charset decoding is the identity",
]
OUTSIDE = ["payloads longer than the bound", "boundaries other than those listed", "k-way splits beyond 3", "symbolic header text"]

NL = {"CRLF": b"\r\n", "LF": b"\n", "CR": b"\r"}


LONG_PART_HEADERS = (b'Content-Disposition: form-data; name="upload"; filename="a-rather-long-file-name.bin"',
                     b"Content-Type: application/octet-stream", b"X-Extra: 0123456789")


def build_body(K, boundary, payload, parts_after, bodyless, long_first=False, pad=b"", preamble=b""):
    """a multipart body with one part whose payload is `payload` (may be symbolic);
    long_first puts a part with a long header block in front of it; `pad` is transport padding
    (RFC 2046: linear white space after a delimiter, before its line break)"""
    head = preamble
    if long_first:
        head += b"--" + boundary + pad + K + K.join(LONG_PART_HEADERS) + K + K + b"first" + K
    head += b"--" + boundary + pad + K + b'Content-Disposition: form-data; name="a"' + K
    if bodyless:
        # a part without a body: the header block is directly followed by the delimiter
        first = head + K + b"--" + boundary
    else:
        first = pconcat(head + K, payload, K + b"--" + boundary)
    if parts_after:
        rest = pad + K + b'Content-Disposition: form-data; name="z"; filename="f"' + K + K + b"tail" + K + b"--" + boundary + b"--" + pad + K
    else:
        rest = b"--" + pad + K
    return pconcat(first, rest)


def decode(I, X, boundary, chunks):
    """feed chunks to the real decoder; returns a list describing the event stream"""
    from werkzeug.sansio.multipart import Data, Epilogue, Field, File, MultipartDecoder, NeedData, Preamble

    d = I.call(MultipartDecoder, (boundary,))
    parts = []  # [kind, name, filename, headers, payload, finished]
    shape = []
    err = None
    try:
        for ch in list(chunks) + [None]:
            I.call(d.receive_data, (ch,))
            while True:
                ev = I.call(d.next_event, ())
                if isinstance(ev, NeedData):
                    break
                if isinstance(ev, Preamble):
                    shape.append("preamble")
                elif isinstance(ev, (Field, File)):
                    kind = "file" if isinstance(ev, File) else "field"
                    parts.append([kind, ev.name, getattr(ev, "filename", None), sorted(list(ev.headers)), b"", False])
                    shape.append(kind)
                elif isinstance(ev, Data):
                    if not parts or parts[-1][5]:
                        shape.append("orphan-data")
                        parts.append(["orphan", None, None, [], b"", False])
                    parts[-1][4] = pconcat(parts[-1][4], ev.data)
                    if not ev.more_data:
                        parts[-1][5] = True
                        shape.append("end-of-part")
                elif isinstance(ev, Epilogue):
                    shape.append("epilogue")
                    break
            if "epilogue" in shape:
                break
    except ValueError as e:
        err = "ValueError"
    return parts, shape, err


def same_stream(a, b):
    """event streams equal (payload bytes compared by the solver)"""
    pa, sa, ea = a
    pb, sb, eb = b
    if sa != sb or ea != eb or len(pa) != len(pb):
        return False
    ok = True
    for x, y in zip(pa, pb):
        if x[0] != y[0] or x[1] != y[1] or x[2] != y[2] or x[3] != y[3] or x[5] != y[5]:
            return False
        ok = pand(ok, peq(x[4], y[4]))
    return ok


def split_at(body, offsets):
    out = []
    prev = 0
    for o in offsets:
        out.append(body[prev:o])
        prev = o
    out.append(body[prev:])
    return out


def body_decoder(I, X, framing="CRLF", boundary=b"b", n=3, bodyless=False, parts_after=False, cuts=(0,), long_first=False, pad=0, preamble=""):
    """`cuts` are split offsets counted back from the end of the payload region"""
    if isinstance(boundary, str):
        boundary = boundary.encode("latin-1")
    K = NL[framing]
    if bodyless:
        payload = b""
    else:
        payload = X.bytes("payload", n, minlen=n)
        if framing == "LF":
            X.assume(pnone_in(payload, [13]))
        elif framing == "CR":
            X.assume(pnone_in(payload, [10]))
    body = build_body(K, boundary, payload, parts_after, bodyless, long_first, (b" \t" * pad)[:pad], preamble.encode("latin-1"))
    total = plen(body)
    offsets = sorted(total - c for c in cuts)
    if offsets[0] < 0 or offsets[-1] > total:
        X.assume(False)
    whole = decode(I, X, boundary, [body])
    chunked = decode(I, X, boundary, split_at(body, offsets))
    ok = same_stream(whole, chunked)
    # absolute oracle: a payload without a delimiter look-alike comes back byte-exact
    if not bodyless:
        clean = pnot(pcontains(pconcat(payload, K), b"--" + boundary))
        idx = 1 if long_first else 0
        got = whole[0][idx][4] if len(whole[0]) > idx else None
        good = (got is not None) and peq(got, payload) if got is not None else False
        ok = pand(ok, pimplies(clean, pand(whole[2] is None, good)))
    else:
        idx = 1 if long_first else 0
        ok = pand(ok, whole[2] is None, len(whole[0]) > idx and peq(whole[0][idx][4], b""))
    obs = {"whole": whole, "chunked": chunked}
    return ok, obs


class Stream:
    """input stream stub: full reads, except one solver-chosen short read"""

    def __init__(self, body, short_call=0, short_len=0):
        self.body, self.pos, self.calls = body, 0, 0
        self.short_call, self.short_len = short_call, short_len
        self.sizes = []

    def read(self, n=-1):
        self.calls += 1
        total = plen(self.body)
        k = total - self.pos if n is None or n < 0 else min(n, total - self.pos)
        if self.calls == self.short_call:
            k = min(k, self.short_len)
        out = self.body[self.pos:self.pos + k]
        self.pos += k
        self.sizes.append(k)
        return out


class Sink:
    """stream_factory product: collects what the parser writes for a file part"""

    def __init__(self):
        self.pieces = []

    def write(self, b):
        self.pieces.append(b)

    def seek(self, *a):
        pass

    def content(self):
        r = b""
        for p in self.pieces:
            r = pconcat(r, p)
        return r


def run_parser(I, boundary, body, buffer_size, short_call=0, short_len=0):
    from werkzeug.formparser import MultiPartParser

    sinks = []

    def factory(total_content_length=None, filename=None, content_type=None, content_length=None):
        sinks.append(Sink())
        return sinks[-1]

    p = I.call(MultiPartParser, (), {"stream_factory": factory, "buffer_size": buffer_size})
    st = Stream(body, short_call, short_len)
    try:
        form, files = I.call(p.parse, (st, boundary, None))
    except ValueError:
        return "ValueError", None, None, st.sizes
    fields = [(k, v) for k, v in form.items(multi=True)]
    fl = [(k, v.filename, v.stream.content()) for k, v in files.items(multi=True)]
    return None, fields, fl, st.sizes


def body_parser(I, X, framing="CRLF", boundary="b", n=2, kind="field", buffer_size=5, short=False, any_bytes=False):
    boundary = boundary.encode("latin-1")
    K = NL[framing]
    payload = X.bytes("payload", n, minlen=n)
    if framing == "LF":
        X.assume(pnone_in(payload, [13]))
    elif framing == "CR":
        X.assume(pnone_in(payload, [10]))
    if kind == "field" and n > 1 and not any_bytes:
        # field values are charset-decoded; keep that the identity beyond one byte
        X.assume(pnone_in(payload, [(128, 255)]))
    disp = b'Content-Disposition: form-data; name="a"' + (b'; filename="f"' if kind == "file" else b"")
    body = pconcat(b"--" + boundary + K + disp + K + K, payload, K + b"--" + boundary + b"--" + K)
    total = plen(body)
    short_call = short_len = 0
    if short:
        ncalls = (total + buffer_size - 1) // buffer_size
        short_call = X.cint("short_call", 1, ncalls)
        short_len = X.cint("short_len", 1, max(1, buffer_size - 1))
    ref = run_parser(I, boundary, body, total + 1)
    got = run_parser(I, boundary, body, buffer_size, short_call, short_len)
    ok = ref[0] == got[0]
    if ok and ref[0] is None:
        ok = pand(peq(ref[1], got[1]), len(ref[2]) == len(got[2]))
        for a, b in zip(ref[2], got[2]):
            ok = pand(ok, a[0] == b[0], a[1] == b[1], peq(a[2], b[2]))
        clean = pnot(pcontains(pconcat(payload, K), b"--" + boundary))
        if kind == "file":
            good = len(ref[2]) == 1 and peq(ref[2][0][2], payload)
        else:
            good = len(ref[1]) == 1 and peq(ref[1][0][1], payload.decode("utf-8", "replace"))
        ok = pand(ok, pimplies(clean, good))
    # (the interpreter evaluates the _chunk_iter generator eagerly, so the number of reads
    # before a parse error differs from CPython's lazy evaluation: reported only on success)
    obs = {"ref": ref[:3], "got": got[:3], "reads": got[3] if got[0] is None else None}
    return ok, obs


def _padded_obligations(tier, seed):
    """transport padding after every delimiter (shorter and longer than the decoder's search
    window) and a preamble: every 2-way split"""
    out = []
    for framing in (["CRLF"] if tier == "quick" else ["CRLF", "LF", "CR"]):
        K = NL[framing]
        for pad, preamble, n in ([(1, "", 1), (12, "", 1), (12, "pre\r\n", 0)] if tier == "quick" else
                                 [(p, pre, n) for p in (1, 9, 12, 20) for pre in ("", "pre" + K.decode()) for n in (0, 2)]):
            total = len(build_body(K, b"b", b"x" * n, True, False, False, (b" \t" * pad)[:pad], preamble.encode()))
            for c in range(0, total + 1):
                out.append({"name": f"decoder-padded[{framing},pad={pad},preamble={preamble!r},n={n},cuts=({c},)]", "body": "body_decoder",
                            "params": {"framing": framing, "boundary": "b", "n": n, "bodyless": False, "parts_after": True, "cuts": [c],
                                       "pad": pad, "preamble": preamble},
                            "opts": {"budget_s": 600}})
    return out


def obligations(tier, seed):
    out = _decoder_obligations(tier, seed) + _long_first_obligations(tier, seed) + _long_boundary_obligations(tier, seed) + _padded_obligations(tier, seed)
    for framing, K in NL.items():
        for kind in ("field", "file"):
            if kind == "file":
                lens = [0, 1, 2, 4] if tier == "quick" else [0, 1, 2, 3, 4, 5]
            else:
                lens = ([1, 3] if framing == "CRLF" else []) if tier == "quick" else [0, 1, 2, 3, 4]
            for n in lens:
                total = len(b"--b" + K + b'Content-Disposition: form-data; name="a"' + (b'; filename="f"' if kind == "file" else b"") + K + K) + n + len(K + b"--b--" + K)
                sizes = range(1, total + 2)
                if tier == "quick" and framing != "CRLF":
                    sizes = range(1, total + 2, 3)
                for bs in sizes:
                    out.append({
                        "name": f"parser[{framing},{kind},n={n},buffer_size={bs}]",
                        "body": "body_parser",
                        "params": {"framing": framing, "kind": kind, "n": n, "buffer_size": bs, "short": False},
                        "opts": {"budget_s": 600, "ctx": {"loop_bound": 1000}},
                        "witness": bs == 7 and n in (2, 3),
                    })
                if kind == "field" and framing == "CRLF" and n in (2, 3):  # (n=4 did not finish within the per-obligation budget in the measured thorough run)
                    # arbitrary bytes in a text field (multi-byte and ill-formed UTF-8): the decoded
                    # value must not depend on where a read cuts the bytes
                    head = len(b"--b" + K + b'Content-Disposition: form-data; name="a"' + K + K)
                    for bs in sorted({head + 1, head + 2} if tier == "quick" else set(range(head - 1, head + n + 1)) | {head // 2 + 1, 7}):
                        out.append({
                            "name": f"parser-field-bytes[{framing},n={n},buffer_size={bs}]",
                            "body": "body_parser",
                            "params": {"framing": framing, "kind": kind, "n": n, "buffer_size": bs, "short": False, "any_bytes": True},
                            "opts": {"budget_s": 900, "ctx": {"loop_bound": 1000, "max_cp": 0xFFFF}},
                        })
                if (tier != "quick" and n <= 4) or (tier == "quick" and framing == "CRLF" and n == 1):
                    # the input stream returns fewer bytes than requested at one solver-chosen
                    # call (sockets do): the result must not depend on it
                    for bs in ((2, 3, 5, 8, 13, 21, 34) if tier != "quick" else (13, 34)):
                        out.append({
                            "name": f"parser-short-read[{framing},{kind},n={n},buffer_size={bs}]",
                            "body": "body_parser",
                            "params": {"framing": framing, "kind": kind, "n": n, "buffer_size": bs, "short": True},
                            "opts": {"budget_s": 900, "ctx": {"loop_bound": 1000}},
                        })
    return out


def _long_first_obligations(tier, seed):
    """a part with a long header block first, then the symbolic part, then another part:
    state carried from one part's header search into the next is exercised by every
    2-way split"""
    out = []
    framings = ["CRLF"] if tier == "quick" else ["CRLF", "LF", "CR"]
    for framing in framings:
        K = NL[framing]
        for bodyless, n in ([(False, 0), (False, 2)] if tier == "quick" else [(False, 0), (False, 1), (False, 3), (True, 0)]):
            total = len(build_body(K, b"b", b"x" * n, True, bodyless, True))
            for c in range(0, total + 1):
                out.append({
                    "name": f"decoder-long-first[{framing},n={n},bodyless={bodyless},cuts=({c},)]",
                    "body": "body_decoder",
                    "params": {"framing": framing, "boundary": "b", "n": n, "bodyless": bodyless, "parts_after": True,
                               "cuts": [c], "long_first": True},
                    "opts": {"budget_s": 600},
                })
    return out


def _long_boundary_obligations(tier, seed):
    """a realistic (long) boundary: the incremental searches of the PREAMBLE / PART states only
    re-scan a retained tail whose size depends on len(boundary)"""
    out = []
    boundary = b"----long-boundary-0123456789"
    framings = ["CRLF"] if tier == "quick" else ["CRLF", "LF", "CR"]
    for framing in framings:
        K = NL[framing]
        for n in ([1] if tier == "quick" else [0, 2, 3]):
            total = len(build_body(K, boundary, b"x" * n, True, False))
            for c in range(0, total + 1):
                out.append({
                    "name": f"decoder-long-boundary[{framing},n={n},cuts=({c},)]",
                    "body": "body_decoder",
                    "params": {"framing": framing, "boundary": boundary.decode(), "n": n, "bodyless": False, "parts_after": True, "cuts": [c]},
                    "opts": {"budget_s": 600},
                })
    return out


def _decoder_obligations(tier, seed):
    out = []
    if tier == "quick":
        lens = {"CRLF": [0, 1, 2, 3, 4], "LF": [0, 1, 2, 3, 4], "CR": [0, 1, 2, 3, 4]}
        boundaries = [b"b"]
    else:
        lens = {"CRLF": [0, 1, 2, 3, 4], "LF": [0, 1, 2, 3, 4], "CR": [0, 1, 2, 3, 4]}
        boundaries = [b"b", b"-b", b"bb"]
    for boundary in boundaries:
        for framing, K in NL.items():
            for parts_after in (False, True):
                tail_len = len(build_body(K, boundary, b"", parts_after, False)) - len(build_body(K, boundary, b"", parts_after, False).split(K + K)[0]) - 2 * len(K)
                variants = [(False, n) for n in lens[framing]] + [(True, 0)]
                for bodyless, n in variants:
                    total = len(build_body(K, boundary, b"x" * n, parts_after, bodyless))
                    # every 2-way split of the whole body (offset counted from the end)
                    cutsets = [(c,) for c in range(0, total + 1)]
                    if tier != "quick":
                        # 3-way splits with both cuts in the window around the symbolic payload
                        win = range(max(0, tail_len - 2), min(total, tail_len + n + 2 * len(K) + 4) + 1)
                        cutsets += [(a, b) for a in win for b in win if a > b]
                    # group cut sets into a handful of obligations to amortise start-up
                    for cs in cutsets:
                        out.append({
                            "name": f"decoder[{framing},boundary={boundary!r},n={n},bodyless={bodyless},after={parts_after},cuts={cs}]",
                            "body": "body_decoder",
                            "params": {"framing": framing, "boundary": boundary.decode("latin-1"), "n": n, "bodyless": bodyless,
                                       "parts_after": parts_after, "cuts": list(cs)},
                            "opts": {"budget_s": 600},
                            "witness": cs == (tail_len + 1,),
                        })
    return out
