"""C12 -- router redirects stay on the bound host and converge.

Same symbolic execution as C03 (MapAdapter.match, StateMachineMatcher.match,
make_redirect_url, get_default_redirect, make_alias_redirect_url), concentrated on the
maps that issue redirects, with script roots, schemes and rule maps with defaults and
alias rules added; every RequestRedirect found on any path is checked for host/scheme/
script root, query preservation, convergence and meaning preservation.
"""
from __future__ import annotations

from harness.c03 import ALIAS_MAPS, ALL_MAPS, EXTRA_MAPS, MAPS, MORE_MAPS, body_match, extra_checks, make_stubs  # noqa: F401

PROPERTY = "C12"
BOUNDS = {
    "quick": {"path": "'/' + <= 5 solver characters (printable ASCII without ? #; '%' stands for a percent sign sent as %25), incl. leading '//host' forms", "maps": "12 redirecting maps incl. defaults (equal and wider), alias rules (same shape and with extra defaults) and per-method rules",
              "script roots": ["/", "/app", "/app/"], "schemes": ["http", "https", "ws / wss with WebSocket rules"]},
    "thorough": {"path": "<= 7 characters"},
}
STUBS = ["urllib.parse.quote: per-byte model, differentially tested at start-up"]
ASSUMPTIONS = ["rule maps / script roots / schemes are enumerated", "paths are printable ASCII", "query arguments are fixed: the string 'q=1', a dict and a multi-valued mapping with a repeated key and a value that needs escaping"]
OUTSIDE = ["redirect_to targets", "subdomains", "non-ASCII characters", "solver-chosen query keys / values (C02 covers the encoder)"]


def obligations(tier, seed):
    out = []
    quick = tier == "quick"
    nm = len(MAPS)
    na = nm + len(EXTRA_MAPS) + len(MORE_MAPS)
    for mi in (0, 2, 6, 8, nm, nm + 1, nm + 2, nm + 3, na, na + 1, na + 2, na + 3):
        for script in ("/", "/app", "/app/"):
            for scheme in (("http", "https") if script == "/" else ("https",)):
                for strict, merge in [(True, True), (True, False), (False, True)]:
                  for method in (("GET", "POST") if mi == nm + 3 else ("GET",)):
                    for n in (range(0, 6) if quick else range(0, 8)):
                        out.append({"name": f"redirects[map={mi},script={script},{scheme},strict={strict},merge={merge},{method},n={n}]", "body": "body_match",
                                    "params": {"mi": mi, "order": 0, "strict": strict, "merge": merge, "n": n, "method": method,
                                               "script": script, "scheme": scheme, "pct": True},
                                    "opts": {"budget_s": 600 if quick else 3000, "ctx": {"max_cp": 0x7E, "bv_ints": True}},
                                    "witness": n == 2 and mi == 0 and script == "/app"})
    # the query string bound once (bind_to_environ style) instead of passed to match()
    for mi in (nm + 1, na, na + 2):
        for n in (range(0, 6) if quick else range(0, 8)):
            out.append({"name": f"redirects[map={mi},query-at-bind,n={n}]", "body": "body_match",
                        "params": {"mi": mi, "order": 0, "strict": True, "merge": True, "n": n, "method": "GET", "script": "/", "scheme": "http",
                                   "pct": True, "qbind": True},
                        "opts": {"budget_s": 600 if quick else 3000, "ctx": {"max_cp": 0x7E, "bv_ints": True}}})
    # WebSocket rules on an adapter bound to ws / wss: redirects keep that scheme
    for mi in (0, nm + 1, na, na + 2):
        for scheme in ("ws", "wss"):
            for n in (range(0, 5) if quick else range(0, 7)):
                out.append({"name": f"redirects[map={mi},websocket,{scheme},n={n}]", "body": "body_match",
                            "params": {"mi": mi, "order": 0, "strict": True, "merge": True, "n": n, "method": "GET", "script": "/", "scheme": scheme,
                                       "pct": True, "ws": True},
                            "opts": {"budget_s": 600 if quick else 3000, "ctx": {"max_cp": 0x7E, "bv_ints": True}}})
    # query arguments given as a mapping (dict; multi-valued mapping with a repeated key)
    for qform in ("dict", "multi"):
        for mi, qbind in ((0, False), (nm + 1, False), (na, True), (na + 2, False)):
            for n in (range(0, 5) if quick else range(0, 8)):
                out.append({"name": f"redirects[map={mi},query={qform},at-bind={qbind},n={n}]", "body": "body_match",
                            "params": {"mi": mi, "order": 0, "strict": True, "merge": True, "n": n, "method": "GET", "script": "/", "scheme": "http",
                                       "pct": True, "qbind": qbind, "qform": qform},
                            "opts": {"budget_s": 600 if quick else 3000, "ctx": {"max_cp": 0x7E, "bv_ints": True}}})
    return out
