"""C16 -- live views of response headers never drift from the header text.

The mutable views of sansio.response.Response (vary / allow / content_language header
sets, cache_control, www_authenticate, content_range) and scalar typed properties are
executed symbolically through enumerated mutation histories whose operands are solver
characters / solver integers; after every step the header text must equal the view's
serialisation (or be absent when the view is empty) and a freshly read view must be
equal to the mutated one.
"""
from __future__ import annotations

import itertools

from harness.c08 import lower, same_ci, sym_char
from symex.poly import pall_in, pand, pconcat, pcontains, peq, pimplies, plen, pnone_in, pnot, por, pstr

PROPERTY = "C16"
BOUNDS = {
    "quick": {"history": "every sequence of 2 view mutations (per view family), interleaved with a direct header edit variant", "set elements": "solver characters over {a, A, b, B, c}",
              "ints": "solver ints 0..99999"},
    "thorough": {"history": "3 mutations"},
}
STUBS = ["none"]
ASSUMPTIONS = ["date-valued properties are not exercised (datetime is C)"]
OUTSIDE = ["a WWW-Authenticate challenge with neither token nor parameters", "datetimes with a non-UTC offset in the date properties", "longer histories"]

SET_PROPS = ["vary", "allow", "content_language"]
SET_HEADER = {"vary": "Vary", "allow": "Allow", "content_language": "Content-Language"}
SET_OPS = ["add", "remove", "discard", "update2", "clear", "assign-list", "assign-none", "direct-edit", "setitem0"]


def body_set_view(I, X, prop="vary", ops=("add", "remove")):
    from werkzeug.sansio.response import Response

    resp = Response()
    name = SET_HEADER[prop]
    a0 = sym_char(X, "init0")
    X.assume(pnot(peq(lower(a0), "c")))   # assigned lists / header text are taken as they are: keep them duplicate-free
    I.setattr(resp, prop, [a0, "c"])
    model = [a0, "c"]
    ok = True
    trace = []
    for j, op in enumerate(ops):
        x = sym_char(X, f"x{j}")
        view = I.getattr(resp, prop)
        exc = None
        try:
            if op == "add":
                I.call(view.add, (x,))
                if not any(same_ci(x, m) for m in model):
                    model.append(x)
            elif op in ("remove", "discard"):
                hit = [i for i, m in enumerate(model) if same_ci(x, m)]
                I.call(getattr(view, op), (x,))
                if hit:
                    del model[hit[0]]
            elif op == "update2":
                I.call(view.update, ([x, "B"],))
                for y in (x, "B"):
                    if not any(same_ci(y, m) for m in model):
                        model.append(y)
            elif op == "clear":
                I.call(view.clear, ())
                model = []
            elif op == "setitem0":
                # index assignment; replacing an item by a respelling of itself is allowed,
                # colliding with ANOTHER item would create a duplicate (assumed away)
                for m in model[1:]:
                    X.assume(pnot(same_ci(x, m)))
                I.call(view.__setitem__, (0, x))
                model[0] = x
            elif op == "assign-list":
                X.assume(pnot(peq(lower(x), "b")))
                I.setattr(resp, prop, [x, "b"])
                model = [x, "b"]
            elif op == "assign-none":
                I.setattr(resp, prop, None)
                model = []
            elif op == "direct-edit":
                X.assume(pnot(peq(lower(x), "c")))
                I.call(resp.headers.__setitem__, (name, pconcat(x, ", c")))
                model = [x, "c"]
        except KeyError:
            exc = "KeyError"
            hit = [i for i, m in enumerate(model) if same_ci(x, m)]
            ok = pand(ok, op == "remove" and not hit)
        except IndexError:
            exc = "IndexError"
            ok = pand(ok, op == "setitem0" and not model)
        # coherence after the step
        hdr = I.call(resp.headers.get, (name,))
        exp = None
        if model:
            exp = ""
            for i, m in enumerate(model):
                exp = pconcat(exp, ", " if i else "", m)
        ok = pand(ok, (hdr is None) if exp is None else (hdr is not None and peq(hdr, exp)))
        fresh = list(I.call(I.getattr(resp, prop).__iter__, ()))
        ok = pand(ok, len(fresh) == len(model))
        if len(fresh) == len(model):
            for g, m in zip(fresh, model):
                ok = pand(ok, peq(g, m))
        trace.append((op, exc))
    return ok, {"trace": trace, "header": hdr}


CC_OPS = ["max_age", "no_store-on", "no_store-off", "no_store-falsy", "private", "del-max_age", "public-none", "direct-edit"]


def body_cache_control(I, X, ops=("max_age", "private")):
    from werkzeug.sansio.response import Response

    resp = Response()
    model = {}
    ok = True
    trace = []
    for j, op in enumerate(ops):
        cc = I.getattr(resp, "cache_control")
        n = X.int(f"n{j}", 0, 99999)
        if op == "max_age":
            I.setattr(cc, "max_age", n)
            model["max-age"] = n
        elif op == "no_store-on":
            I.setattr(cc, "no_store", True)
            model["no-store"] = None
        elif op == "no_store-off":
            I.setattr(cc, "no_store", False)
            model.pop("no-store", None)
        elif op == "no_store-falsy":
            # boolean directives are set by truthiness: 0 / '' switch them off like False
            I.setattr(cc, "no_store", X.choice(f"falsy{j}", [0, ""]))
            model.pop("no-store", None)
        elif op == "private":
            I.setattr(cc, "private", "x")
            model["private"] = "x"
        elif op == "del-max_age":
            I.call(type(cc).max_age.__delete__, (type(cc).__dict__.get("max_age", type(cc).max_age), cc)) if False else I.call(cc.pop, ("max-age", None))
            model.pop("max-age", None)
        elif op == "public-none":
            I.setattr(cc, "public", None)
            model.pop("public", None)
        elif op == "direct-edit":
            I.call(resp.headers.__setitem__, ("Cache-Control", pconcat("max-age=", pstr(n))))
            model = {"max-age": n}
        hdr = I.call(resp.headers.get, ("Cache-Control",))
        # expected serialisation in insertion order
        exp = None
        if model:
            exp = ""
            for i, (k, v) in enumerate(model.items()):
                exp = pconcat(exp, ", " if i else "", k if v is None else pconcat(k, "=", pstr(v)))
        ok = pand(ok, (hdr is None) if exp is None else (hdr is not None and peq(hdr, exp)))
        fresh = I.getattr(resp, "cache_control")
        ok = pand(ok, peq(I.getattr(fresh, "max_age"), model["max-age"]) if "max-age" in model else I.getattr(fresh, "max_age") is None)
        ok = pand(ok, bool(I.getattr(fresh, "no_store")) == ("no-store" in model))
        ok = pand(ok, peq(I.getattr(fresh, "private"), "x") if "private" in model else (not I.getattr(fresh, "private")))
        trace.append(op)
    return ok, {"trace": trace, "header": hdr}


WA_OPS = ["set-type", "set-token", "set-param", "del-param", "set-param-none", "assign-new", "assign-none", "assign-params", "params-dict-set", "assign-then-dict-set"]


def body_www_authenticate(I, X, ops=("set-param", "set-type"), start="params"):
    from werkzeug.datastructures import WWWAuthenticate
    from werkzeug.sansio.response import Response

    resp = Response()
    v0 = sym_char(X, "init0")
    if start == "params":
        # two parameters, so that removing one never leaves a challenge with neither token
        # nor parameters (its text 'Digest ' re-reads as an empty token: outside the claim)
        I.setattr(resp, "www_authenticate", I.call(WWWAuthenticate, ("digest", {"realm": v0, "nonce": "n"})))
        model = {"type": "digest", "token": None, "params": {"realm": v0, "nonce": "n"}}
    else:
        I.setattr(resp, "www_authenticate", I.call(WWWAuthenticate, ("bearer", None, pconcat("t", v0))))
        model = {"type": "bearer", "token": pconcat("t", v0), "params": {}}
    ok = True
    trace = []
    absent = False
    for j, op in enumerate(ops):
        x = sym_char(X, f"x{j}")
        w = I.getattr(resp, "www_authenticate")
        if absent and op in ("del-param", "set-param-none") and "realm" not in model["params"]:
            # nothing to remove from the default view: no mutation, the header stays absent
            I.call(w.__delitem__, ("realm",)) if op == "del-param" else I.call(w.__setitem__, ("realm", None))
            hdr = I.call(resp.headers.get, ("WWW-Authenticate",))
            ok = pand(ok, hdr is None) if op == "del-param" else ok
            if op == "set-param-none":
                absent = False
            trace.append(op)
            if op == "del-param":
                continue
        if op == "set-type":
            I.setattr(w, "type", "basic")
            model["type"] = "basic"
        elif op == "set-token":
            # a token68 character (RFC 9110): letters, digits and - . _ ~ + /
            tk = X.str(f"tk{j}", 1, minlen=1, maxcp=0x7F)
            X.assume(pall_in(tk, [(0x30, 0x39), (0x41, 0x5A), (0x61, 0x7A), 0x2D, 0x2E, 0x5F, 0x7E, 0x2B, 0x2F]))
            I.setattr(w, "token", pconcat("k", tk, "z"))
            model["token"] = pconcat("k", tk, "z")
        elif op == "set-param":
            I.call(w.__setitem__, ("qop", x))
            model["params"]["qop"] = x
        elif op == "assign-params":
            # the whole parameter dict is replaced ...
            I.setattr(w, "parameters", {"realm": x, "nonce": "m"})
            model["params"] = {"realm": x, "nonce": "m"}
        elif op == "assign-then-dict-set":
            # the SAME held view: replace the parameter dict, then mutate the new dict
            I.setattr(w, "parameters", {"realm": x, "nonce": "m"})
            d = I.getattr(w, "parameters")
            I.call(d.__setitem__, ("qop", x))
            model["params"] = {"realm": x, "nonce": "m", "qop": x}
        elif op == "params-dict-set":
            # ... and the dict handed out by .parameters is itself a live view
            d = I.getattr(w, "parameters")
            I.call(d.__setitem__, ("qop", x))
            model["params"]["qop"] = x
        elif op == "del-param":
            I.call(w.__delitem__, ("realm",))
            model["params"].pop("realm", None)
        elif op == "set-param-none":
            I.call(w.__setitem__, ("realm", None))
            model["params"].pop("realm", None)
        elif op == "assign-new":
            I.setattr(resp, "www_authenticate", I.call(WWWAuthenticate, ("negotiate", None, pconcat("n", x))))
            model = {"type": "negotiate", "token": pconcat("n", x), "params": {}}
        elif op == "assign-none":
            I.setattr(resp, "www_authenticate", None)
            model = None
        hdr = I.call(resp.headers.get, ("WWW-Authenticate",))
        if model is None:
            ok = pand(ok, hdr is None)
            model = {"type": "basic", "token": None, "params": {}}  # the property's documented default view
            absent = True
            trace.append(op)
            continue
        absent = False
        # the header text equals the serialisation of an object with exactly the model's state
        ref = WWWAuthenticate(model["type"], dict(model["params"]) if model["params"] else None, model["token"]) if not X.symbolic else \
            I.call(WWWAuthenticate, (model["type"], dict(model["params"]) if model["params"] else None, model["token"]))
        exp = I.call(ref.to_header, ())
        ok = pand(ok, hdr is not None and peq(hdr, exp))
        fresh = I.getattr(resp, "www_authenticate")
        ok = pand(ok, fresh.type == model["type"])
        trace.append(op)
        if model["token"] is None and not model["params"]:
            # a challenge with neither token nor parameters (e.g. the default view after its
            # type was set): its text 'Basic ' re-reads as an empty token -- outside the claim,
            # so the history ends here
            break
    return ok, {"trace": trace, "header": hdr}


def body_content_range(I, X, ops=("set", "unset")):
    from werkzeug.sansio.response import Response

    resp = Response()
    ok = True
    hdr = None
    for j, op in enumerate(ops):
        cr = I.getattr(resp, "content_range")
        # small ranges (two digit-count classes): wide integers are covered by C06's round trips
        a = X.int(f"a{j}", 0, 98)
        b = X.int(f"b{j}", 1, 99)
        L = X.int(f"L{j}", 1, 99)
        X.assume(pand(a < b, b <= L))
        if op == "set":
            I.call(cr.set, (a, b, L))
            exp = pconcat("bytes ", pstr(a), "-", pstr(b - 1), "/", pstr(L))
        elif op == "unset":
            I.call(cr.unset, ())
            exp = None
        elif op == "set-length-none":
            I.call(cr.set, (a, b, None))
            exp = pconcat("bytes ", pstr(a), "-", pstr(b - 1), "/*")
        elif op == "set-unsatisfied":
            Z = X.int(f"Z{j}", 0, 99)
            I.call(cr.set, (None, None, Z))
            exp = pconcat("bytes */", pstr(Z))
        hdr = I.call(resp.headers.get, ("Content-Range",))
        ok = pand(ok, (hdr is None) if exp is None else (hdr is not None and peq(hdr, exp)))
        fresh = I.getattr(resp, "content_range")
        if exp is not None and op == "set-unsatisfied":
            ok = pand(ok, fresh.start is None, fresh.stop is None, fresh.length is not None and peq(fresh.length, Z))
        elif exp is not None:
            ok = pand(ok, peq(fresh.start, a), peq(fresh.stop, b))
    return ok, {"header": hdr}


def body_content_range_held(I, X, away="assign-none", attr="length"):
    """a held Content-Range view keeps writing through: after the header was moved away from
    it (property reset, header deleted or edited, another view changed), assigning one of its
    attributes -- even to the value it already holds -- makes the header the view's text again"""
    from werkzeug.sansio.response import Response

    resp = Response()
    a = X.int("a", 0, 98)
    b = X.int("b", 1, 99)
    L = X.int("L", 1, 99)
    X.assume(pand(a < b, b <= L))
    v = I.getattr(resp, "content_range")
    I.call(v.set, (a, b, L))
    if away == "assign-none":
        I.setattr(resp, "content_range", None)
    elif away == "del-header":
        I.call(resp.headers.__delitem__, ("Content-Range",))
    elif away == "direct-edit":
        I.call(resp.headers.__setitem__, ("Content-Range", "bytes 5-9/100"))
    else:
        other = I.getattr(resp, "content_range")
        I.setattr(other, "length", 100)
    same = X.flag("same_value")
    if attr == "length":
        new = L if same else 100
        I.setattr(v, "length", new)
        exp = pconcat("bytes ", pstr(a), "-", pstr(b - 1), "/", pstr(new))
    elif attr == "start":
        new = a if same else 0
        I.setattr(v, "start", new)
        exp = pconcat("bytes ", pstr(new), "-", pstr(b - 1), "/", pstr(L))
    else:
        I.setattr(v, "units", "bytes" if same else "items")
        exp = pconcat("bytes " if same else "items ", pstr(a), "-", pstr(b - 1), "/", pstr(L))
    hdr = I.call(resp.headers.get, ("Content-Range",))
    ok = hdr is not None and peq(hdr, exp)
    return ok, {"header": hdr}


def body_scalar(I, X, prop="content_length"):
    from werkzeug.sansio.response import Response

    resp = Response()
    n = X.int("n", 0, 99999)
    I.setattr(resp, prop, n)
    back = I.getattr(resp, prop)
    hdr = I.call(resp.headers.get, ({"content_length": "Content-Length", "age": "Age", "access_control_max_age": "Access-Control-Max-Age",
                                     "retry_after": "Retry-After"}[prop],))
    ok = peq(hdr, pstr(n))
    if prop == "retry_after":
        # reads back as a date (now + n seconds): only the header text is compared
        ok = pand(ok, back is not None)
    elif prop == "age":
        ok = pand(ok, back is not None and peq(getattr(back, "seconds_total", None) if hasattr(back, "seconds_total") else int(back.total_seconds()), n))
    else:
        ok = pand(ok, peq(back, n))
    return ok, {"header": hdr}


CSP_OPS = ["set-default", "set-script", "del-default", "none-default", "clear", "assign-none"]


def body_csp(I, X, ops=("set-default", "del-default"), report_only=False):
    """content_security_policy (and its report-only twin) views: the header is the
    serialisation of the live view after every mutation, absent when the view is empty, and the
    other of the two headers is never touched"""
    from werkzeug.sansio.response import Response

    resp = Response()
    prop = "content_security_policy_report_only" if report_only else "content_security_policy"
    name = "Content-Security-Policy-Report-Only" if report_only else "Content-Security-Policy"
    other = "Content-Security-Policy" if report_only else "Content-Security-Policy-Report-Only"
    I.call(resp.headers.__setitem__, (other, "img-src z"))
    model = {}
    ok = True
    trace = []
    for j, op in enumerate(ops):
        x = sym_char(X, f"x{j}")
        view = I.getattr(resp, prop)
        if op == "set-default":
            I.setattr(view, "default_src", x)
            model["default-src"] = x
        elif op == "set-script":
            I.setattr(view, "script_src", x)
            model["script-src"] = x
        elif op == "del-default":
            I.call(view.pop, ("default-src", None))
            model.pop("default-src", None)
        elif op == "none-default":
            I.setattr(view, "default_src", None)
            model.pop("default-src", None)
        elif op == "clear":
            I.call(view.clear, ())
            model = {}
        elif op == "assign-none":
            I.setattr(resp, prop, None)
            model = {}
        hdr = I.call(resp.headers.get, (name,))
        exp = None
        if model:
            exp = ""
            for i, (k, v) in enumerate(model.items()):
                exp = pconcat(exp, "; " if i else "", k, " ", v)
        ok = pand(ok, (hdr is None) if exp is None else (hdr is not None and peq(hdr, exp)))
        ok = pand(ok, I.call(resp.headers.get, (other,)) == "img-src z")
        fresh = dict(I.dict_items(I.getattr(resp, prop)))
        ok = pand(ok, len(fresh) == len(model))
        for k, v in model.items():
            ok = pand(ok, k in fresh and peq(fresh.get(k), v))
        trace.append(op)
    return ok, {"trace": trace, "header": hdr}


def body_mimetype_params(I, X, key="x_foo", n=1):
    """the mimetype_params view writes back exactly the parameter names it holds (also names
    with an underscore); a fresh view equals the held one"""
    from werkzeug.sansio.response import Response

    resp = Response(mimetype="text/plain")
    v = X.str("v", n, minlen=n, maxcp=0x7A)
    X.assume(pall_in(v, [(0x30, 0x39), (0x61, 0x7A)]))
    X.assume(plen(v) > 0)
    view = I.getattr(resp, "mimetype_params")
    I.call(view.__setitem__, (key, v))
    hdr = I.call(resp.headers.get, ("Content-Type",))
    fresh = I.getattr(resp, "mimetype_params")
    held = dict(I.dict_items(view))
    again = dict(I.dict_items(fresh))
    ok = pand(key in again and peq(again.get(key), v), len(again) == len(held), pcontains(hdr, pconcat(key, "=", v)))
    for k2 in held:
        ok = pand(ok, k2 in again)
    return ok, {"header": hdr, "fresh": sorted(again)}


def body_date_prop(I, X, prop="last_modified", month=2, aware=True):
    """date-valued properties (date, last_modified, expires, retry_after): assigning a
    datetime writes the IMF-fixdate text of that instant and the property reads back as the same
    instant (UTC-aware), with year / day / time solver integers"""
    import datetime as dtm

    from harness.dtmodel import SymDatetime, valid_day
    from werkzeug.sansio.response import Response

    y = X.int("y", 1000, 9999)
    d = X.int("d", 1, 31)
    valid_day(X, y, month, d)
    f = (y, month, d, X.int("hh", 0, 23), X.int("mi", 0, 59), X.int("ss", 0, 59))
    tz = dtm.timezone.utc if aware else None
    if aware == "custom-zero":
        # a zero-offset tzinfo that is not datetime.timezone (zoneinfo / pytz / dateutil style)
        from harness.c06 import ZeroTz

        tz = ZeroTz()
    value = SymDatetime(f, tz) if X.symbolic else dtm.datetime(*f, tzinfo=tz)
    resp = Response()
    I.setattr(resp, prop, value)
    name = {"date": "Date", "last_modified": "Last-Modified", "expires": "Expires", "retry_after": "Retry-After"}[prop]
    hdr = I.call(resp.headers.get, (name,))
    back = I.getattr(resp, prop)
    if hdr is None or back is None:
        return False, {"header": hdr}
    mon = ["Jan", "Feb", "Mar", "Apr", "May", "Jun", "Jul", "Aug", "Sep", "Oct", "Nov", "Dec"][month - 1]
    exp_tail = pconcat(pstr(f[2]).zfill(2), " ", mon, " ", pstr(y), " ", pstr(f[3]).zfill(2), ":", pstr(f[4]).zfill(2), ":", pstr(f[5]).zfill(2), " GMT")
    bf = getattr(back, "fields", None) or (back.year, back.month, back.day, back.hour, back.minute, back.second)
    tz_ok = isinstance(back.tzinfo, dtm.tzinfo) and back.tzinfo.utcoffset(None) == dtm.timedelta(0)
    ok = pand(plen(hdr) == 29, peq(hdr[5:], exp_tail), tz_ok, *[peq(a, b) for a, b in zip(bf, f)])
    return ok, {"header": hdr}


def make_stubs():
    from harness.c07 import make_stubs as m

    return m()


def obligations(tier, seed):
    out = []
    quick = tier == "quick"
    k = 2 if quick else 3
    ctx = {"max_cp": 0x7F, "bv_ints": True}
    for prop in SET_PROPS if not quick else ["vary", "allow"]:
        for ops in itertools.product(SET_OPS, repeat=k):
            out.append({"name": f"set_view[{prop},{'+'.join(ops)}]", "body": "body_set_view", "params": {"prop": prop, "ops": list(ops)},
                        "opts": {"budget_s": 600, "ctx": ctx}, "witness": ops[:2] == ("add", "remove") and prop == "vary"})
    for ops in itertools.product(CC_OPS, repeat=k):
        out.append({"name": f"cache_control[{'+'.join(ops)}]", "body": "body_cache_control", "params": {"ops": list(ops)},
                    "opts": {"budget_s": 600, "ctx": ctx}, "witness": ops[:2] == ("max_age", "private")})
    for start in ("params", "token"):
        for ops in itertools.product(WA_OPS, repeat=k):
            out.append({"name": f"www_authenticate[{start},{'+'.join(ops)}]", "body": "body_www_authenticate", "params": {"ops": list(ops), "start": start},
                        "opts": {"budget_s": 600, "ctx": ctx}, "witness": ops[:2] == ("set-param", "set-type") and start == "params"})
    for away in ("assign-none", "del-header", "direct-edit", "second-view"):
        for attr in ("length", "start", "units"):
            out.append({"name": f"content_range_held[{away},{attr}]", "body": "body_content_range_held", "params": {"away": away, "attr": attr},
                        "opts": {"budget_s": 600, "ctx": ctx}})
    for ops in itertools.product(["set", "unset", "set-length-none", "set-unsatisfied"], repeat=k):
        out.append({"name": f"content_range[{'+'.join(ops)}]", "body": "body_content_range", "params": {"ops": list(ops)},
                    "opts": {"budget_s": 600, "ctx": ctx}, "witness": ops[:2] == ("set", "unset")})
    for ro in (False, True):
        for ops in itertools.product(CSP_OPS, repeat=k):
            out.append({"name": f"csp[report_only={ro},{'+'.join(ops)}]", "body": "body_csp", "params": {"ops": list(ops), "report_only": ro},
                        "opts": {"budget_s": 600, "ctx": ctx}})
    for key in ("x_foo", "a-b", "charset"):
        out.append({"name": f"mimetype_params[{key}]", "body": "body_mimetype_params", "params": {"key": key, "n": 2},
                    "opts": {"budget_s": 600, "ctx": ctx}})
    for prop in ("date", "last_modified", "expires", "retry_after"):
        for month, aware in ([(2, True), (11, False)] + ([(5, "custom-zero")] if prop in ("expires", "retry_after") else []) if quick else
                             [(m, a) for m in (1, 2, 6, 12) for a in (True, False, "custom-zero")]):
            out.append({"name": f"date_prop[{prop},month={month},aware={aware}]", "body": "body_date_prop", "params": {"prop": prop, "month": month, "aware": aware},
                        "opts": {"budget_s": 900, "ctx": {"bv_ints": True, "max_digits": 6}}})
    for prop in ("content_length", "age", "access_control_max_age", "retry_after"):
        out.append({"name": f"scalar[{prop}]", "body": "body_scalar", "params": {"prop": prop}, "opts": {"budget_s": 600, "ctx": ctx}, "witness": True})
    return out
