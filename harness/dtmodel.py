"""Contract model of the C-level datetime types for solver integers.

The werkzeug code under test and the stdlib's pure-Python email.utils are interpreted from
their source; the datetime / timedelta / timezone constructors and datetime comparison are C.
They are replaced, only when an argument holds solver data, by the objects below, which
implement the documented contract (range checks, month lengths, offset limits, comparison of
aware values by their UTC instant).  Every path is replayed natively with the real types, so a
wrong model shows up as a per-path validation mismatch, not as a verdict.
"""
from __future__ import annotations

import datetime

C_INT = 2 ** 31
_DIM = (31, 28, 31, 30, 31, 30, 31, 31, 30, 31, 30, 31)


def is_leap(y):
    return (y % 4 == 0) & ((y % 100 != 0) | (y % 400 == 0))


def days_from_civil(y, m, d):
    """days since 0000-03-01 (proleptic Gregorian), pure integer arithmetic (no branching on
    solver values): Howard Hinnant's algorithm"""
    adj = (14 - m) // 12          # 1 for January / February
    y1 = y - adj
    era = y1 // 400
    yoe = y1 - era * 400
    mp = (m + 9) % 12
    doy = (153 * mp + 2) // 5 + d - 1
    doe = yoe * 365 + yoe // 4 - yoe // 100 + doy
    return era * 146097 + doe


def utc_seconds(fields, offset=0):
    y, m, d, hh, mi, ss = fields
    return days_from_civil(y, m, d) * 86400 + hh * 3600 + mi * 60 + ss - offset


def tz_offset_seconds(tz):
    """UTC offset in seconds of a tzinfo stand-in or a real fixed-offset tzinfo (None = naive)"""
    if tz is None:
        return None
    if isinstance(tz, OpaqueTz):
        return tz.offset
    off = tz.utcoffset(None)
    return off.days * 86400 + off.seconds


class OpaqueTimedelta:
    __symex_carrier__ = True

    def __init__(self, seconds):
        self.seconds_total = seconds

    def __radd__(self, other):
        # datetime + timedelta: an opaque later instant
        return ("opaque-datetime", other, self.seconds_total)


class OpaqueTz:
    __symex_carrier__ = True

    def __init__(self, offset):
        self.offset = offset

    def __eq__(self, other):
        if isinstance(other, OpaqueTz):
            return self.offset == other.offset
        if isinstance(other, datetime.tzinfo):
            return self.offset == tz_offset_seconds(other)
        return False

    def __ne__(self, other):
        r = self.__eq__(other)
        return (not r) if isinstance(r, bool) else ~r

    __hash__ = None


class _Instant:
    """comparison of (fields, tz) values the way datetime compares: aware values by their UTC
    instant; naive with aware is a TypeError for ordering"""

    def _key(self):
        raise NotImplementedError

    def _cmp_key(self, other):
        a_off, b_off = _fields_offset(self), _fields_offset(other)
        if (a_off is None) != (b_off is None):
            raise TypeError("can't compare offset-naive and offset-aware datetimes")
        return utc_seconds(self.fields, a_off or 0), utc_seconds(_fields_of(other), b_off or 0)

    def _shift(self, tz):
        """astimezone(tz): the same instant; the calendar fields stay expressed in the original
        offset (only comparisons are supported on the result)"""
        src = _fields_offset(self)
        if src is None:
            from symex.core import Unsupported

            raise Unsupported("astimezone on a naive datetime model (system local time)")
        # the result must itself be a representable datetime in the target zone
        dst = tz_offset_seconds(tz) if tz is not None else 0
        local = utc_seconds(self.fields, src) + (dst or 0)
        lo = utc_seconds((1, 1, 1, 0, 0, 0), 0)
        hi = utc_seconds((9999, 12, 31, 23, 59, 59), 0)
        if local < lo or local > hi:
            raise OverflowError("date value out of range")
        r = OpaqueDatetime(tz, self.fields)
        r.fields_offset = src
        return r

    def __le__(self, other):
        a, b = self._cmp_key(other)
        return a <= b

    def __lt__(self, other):
        a, b = self._cmp_key(other)
        return a < b

    def __ge__(self, other):
        a, b = self._cmp_key(other)
        return a >= b

    def __gt__(self, other):
        a, b = self._cmp_key(other)
        return a > b


def _fields_of(x):
    f = getattr(x, "fields", None)
    if f is not None:
        return f
    return (x.year, x.month, x.day, x.hour, x.minute, x.second)


def _tz_of(x):
    return x.tzinfo


def _fields_offset(x):
    """the UTC offset in which x's calendar fields are expressed (None = naive)"""
    fo = getattr(x, "fields_offset", "same")
    if not isinstance(fo, str):
        return fo
    return tz_offset_seconds(x.tzinfo)


class OpaqueDatetime(_Instant):
    """what datetime.datetime(...) returns for solver integers"""

    __symex_carrier__ = True

    def __init__(self, tzinfo, fields=None):
        self.tzinfo = tzinfo
        self.fields = fields

    def replace(self, **kw):
        # only tzinfo / microsecond are ever replaced by the code under test
        from symex.core import Unsupported

        extra = set(kw) - {"tzinfo", "microsecond"}
        if extra:
            raise Unsupported(f"datetime.replace({sorted(extra)}) on the datetime model")
        if "tzinfo" in kw and not isinstance(getattr(self, "fields_offset", "same"), str):
            raise Unsupported("replace(tzinfo=...) after astimezone on the datetime model")
        r = OpaqueDatetime(kw.get("tzinfo", self.tzinfo), self.fields)
        if not isinstance(getattr(self, "fields_offset", "same"), str):
            r.fields_offset = self.fields_offset
        return r

    def astimezone(self, tz=None):
        return self._shift(tz)


class SymDatetime(datetime.datetime, _Instant):
    """a datetime whose calendar fields are solver integers (a real datetime subclass, so that
    isinstance tests in the code under test behave); tzinfo is a real fixed-offset tzinfo or None"""

    __symex_carrier__ = True

    def __new__(cls, fields, tz=datetime.timezone.utc):
        self = super().__new__(cls, 2000, 1, 1, tzinfo=tz)
        self.fields = tuple(fields)
        self.f = self.fields
        return self

    def timetuple(self):
        y, m, d, hh, mi, ss = self.fields
        before = 0
        for k, n in enumerate(_DIM, start=1):
            if m > k:
                before = before + n
        if (m > 2) and is_leap(y):
            before = before + 1
        y1 = y - 1
        ordinal = d + before + 365 * y1 + y1 // 4 - y1 // 100 + y1 // 400
        return (y, m, d, hh, mi, ss, (ordinal + 6) % 7, before + d, -1)

    def replace(self, **kw):
        extra = set(kw) - {"tzinfo", "microsecond"}
        if extra:
            from symex.core import Unsupported

            raise Unsupported(f"datetime.replace({sorted(extra)}) on the datetime model")
        return SymDatetime(self.fields, kw.get("tzinfo", self.tzinfo))

    def astimezone(self, tz=None):
        shifted = self._shift(tz)      # range check (OverflowError) and the opaque same-instant value
        src, dst = _fields_offset(self), tz_offset_seconds(tz) if tz is not None else None
        if isinstance(src, int) and isinstance(dst, int) and isinstance(tz, datetime.tzinfo):
            # fixed offsets on both sides: the same instant; comparisons keep using the original
            # fields and offset, the calendar fields in the target zone are computed on demand
            return ShiftedDatetime(self.fields, src, tz)
        return shifted

    __le__ = _Instant.__le__
    __lt__ = _Instant.__lt__
    __ge__ = _Instant.__ge__
    __gt__ = _Instant.__gt__
    __hash__ = None


class ShiftedDatetime(SymDatetime):
    """result of astimezone between fixed offsets: compares by the original fields and offset
    (no extra arithmetic in the solver); timetuple() -- what formatting reads -- uses the
    calendar fields of the same instant in the target zone"""

    def __new__(cls, fields, fields_offset, tz):
        self = super().__new__(cls, fields, tz)
        self.fields_offset = fields_offset
        self._local = None
        return self

    def local_fields(self):
        if self._local is None:
            self._local = shift_fields(self.fields, tz_offset_seconds(self.tzinfo) - self.fields_offset)
        return self._local

    def timetuple(self):
        return SymDatetime(self.local_fields(), self.tzinfo).timetuple()

    def replace(self, **kw):
        extra = set(kw) - {"microsecond"}
        if extra:
            from symex.core import Unsupported

            raise Unsupported(f"datetime.replace({sorted(extra)}) after astimezone on the datetime model")
        return self

    def astimezone(self, tz=None):
        return SymDatetime(self.local_fields(), self.tzinfo).astimezone(tz)

    __le__ = _Instant.__le__
    __lt__ = _Instant.__lt__
    __ge__ = _Instant.__ge__
    __gt__ = _Instant.__gt__
    __hash__ = None


def _dim(y, m):
    """days in month m of year y (forks on solver values)"""
    for k in range(1, 13):
        if bool(m == k):
            if k == 2:
                return 29 if bool(is_leap(y)) else 28
            return _DIM[k - 1]
    raise AssertionError("month out of range")


def _fresh_int(c, name, hi):
    import z3

    from symex.core import SInt

    v = z3.Int(name)
    c.add(z3.And(v >= 0, v <= hi))
    return SInt(v)


def shift_fields(fields, delta):
    """calendar fields of the instant `fields` + delta seconds (|delta| < 2 days, concrete):
    time-of-day arithmetic with a day carry, month and year roll-over by case split"""
    y, m, d, hh, mi, ss = fields
    if delta == 0:
        return (y, m, d, hh, mi, ss)
    t = hh * 3600 + mi * 60 + ss + delta
    carry = 0
    while bool(t < 0):
        t, carry = t + 86400, carry - 1
    while bool(t >= 86400):
        t, carry = t - 86400, carry + 1
    if isinstance(t, int):
        hh2, rem = divmod(t, 3600)
        mi2, ss2 = divmod(rem, 60)
    else:
        # no division: fresh bounded integers tied to t by one linear equation (unique solution)
        from symex import core

        c = core.ctx()
        k = c._dt_aux = getattr(c, "_dt_aux", 0) + 1
        mk = (lambda nm, hi: core.sym_int_bv(f"_dt{k}_{nm}", 0, hi)) if getattr(c, "bv_ints", False) else (lambda nm, hi: _fresh_int(c, f"_dt{k}_{nm}", hi))
        hh2, mi2, ss2 = mk("h", 23), mk("m", 59), mk("s", 59)
        eq = hh2 * 3600 + mi2 * 60 + ss2 == t
        c.add(core.zb(eq))
    while carry > 0:
        if bool(d + 1 > _dim(y, m)):
            d = 1
            if bool(m == 12):
                m, y = 1, y + 1
            else:
                m = m + 1
        else:
            d = d + 1
        carry -= 1
    while carry < 0:
        if bool(d - 1 < 1):
            if bool(m == 1):
                m, y = 12, y - 1
            else:
                m = m - 1
            d = _dim(y, m)
        else:
            d = d - 1
        carry += 1
    return (y, m, d, hh2, mi2, ss2)


def valid_day(X, y, m, d):
    """assume d is a valid day of month m (concrete or solver) in year y"""
    from symex.poly import pand, peq, por

    if isinstance(m, int):
        dim = _DIM[m - 1]
        if m == 2:
            dim = 29 if bool(pand(y % 4 == 0, por(y % 100 != 0, y % 400 == 0))) else 28
    else:
        dim = 31
        if bool(por(peq(m, 4), peq(m, 6), peq(m, 9), peq(m, 11))):
            dim = 30
        elif bool(peq(m, 2)):
            dim = 29 if bool(pand(y % 4 == 0, por(y % 100 != 0, y % 400 == 0))) else 28
    X.assume(d <= dim)


def stubs():
    """{callable: stub} for datetime.timedelta / timezone / datetime"""
    from symex.core import SInt

    def timedelta_stub(I, *a, **kw):
        """datetime.timedelta(seconds=n) on a symbolic int: OverflowError beyond
        999999999 days, else an opaque value"""
        sec = kw.get("seconds", a[1] if len(a) > 1 else 0)
        if isinstance(sec, SInt) and set(kw) <= {"seconds"} and len(a) <= 0:
            lim = 86400 * 1000000000
            if sec >= lim or sec < -86400 * 999999999:
                raise OverflowError("days out of range")
            return OpaqueTimedelta(sec)
        return datetime.timedelta(*a, **kw)

    def timezone_stub(I, offset, *a):
        """datetime.timezone(offset): ValueError unless -24h < offset < 24h"""
        if isinstance(offset, OpaqueTimedelta):
            sec = offset.seconds_total
            if sec >= 86400 or sec <= -86400:
                raise ValueError("offset must be a timedelta strictly between -timedelta(hours=24) and timedelta(hours=24)")
            return OpaqueTz(sec)
        return datetime.timezone(offset, *a)

    def datetime_stub(I, *a, **kw):
        """datetime.datetime(y, m, d, hh, mm, ss[, tzinfo]) on symbolic ints: OverflowError
        when an argument does not fit a C int, ValueError when a field is out of range
        (day checked against the month's length incl. leap years), else an opaque value"""
        tz = kw.get("tzinfo")
        if len(a) == 7 and tz is None and not kw:
            a, tz = a[:6], a[6]
        if not (any(isinstance(x, SInt) for x in a) or isinstance(tz, OpaqueTz)) or len(a) != 6 or set(kw) - {"tzinfo"}:
            return datetime.datetime(*a, **kw)
        for x in a:
            if x >= C_INT or x < -C_INT:
                raise OverflowError("signed integer is greater than maximum")
        y, m, d, hh, mi, ss = a
        if y < 1 or y > 9999:
            raise ValueError("year is out of range")
        if m < 1 or m > 12:
            raise ValueError("month must be in 1..12")
        if m == 2:
            dim = 29 if (y % 4 == 0 and (y % 100 != 0 or y % 400 == 0)) else 28
        elif m == 4 or m == 6 or m == 9 or m == 11:
            dim = 30
        else:
            dim = 31
        if d < 1 or d > dim:
            raise ValueError("day is out of range for month")
        if hh < 0 or hh > 23:
            raise ValueError("hour must be in 0..23")
        if mi < 0 or mi > 59:
            raise ValueError("minute must be in 0..59")
        if ss < 0 or ss > 59:
            raise ValueError("second must be in 0..59")
        return OpaqueDatetime(tz, tuple(a))

    return {datetime.timedelta: timedelta_stub, datetime.timezone: timezone_stub, datetime.datetime: datetime_stub}
