"""C03 / C12 -- URL matching agrees with the declarative meaning of the rules; router
redirects stay on the bound host and converge.

MapAdapter.match, StateMachineMatcher.match (incl. the nested _match), the converters'
to_python, make_redirect_url and the live per-part regexes are executed symbolically on
a request path of n solver characters, for enumerated rule maps, insertion orders and
slash settings.  The reference is an independent reading of every rule *string* into a
regular expression plus a specificity key.
"""
from __future__ import annotations

import itertools
import re

from symex.poly import pall_in, pand, pconcat, pcontains, peq, pimplies, plen, pnone_in, pnot, por, pstartswith, pendswith

PROPERTY = "C03"
BOUNDS = {
    "quick": {"path": "'/' + <= 5 solver characters (printable ASCII without % ? #)", "maps": "15 rule maps x 3 insertion orders x strict/merge slashes on/off (4 settings)",
              "methods": "GET + one more"},
    "thorough": {"path": "<= 7 characters", "maps": "15 maps x 6 orders x 4 slash settings"},
}
STUBS = ["urllib.parse.quote: per-byte model (safe set -> itself, else %XX), differentially tested at start-up"]
ASSUMPTIONS = ["rule maps, insertion orders and slash settings are enumerated, not solver-quantified", "paths are printable ASCII"]
OUTSIDE = ["uuid converter (uuid.UUID is stdlib class code)", "several path converters in one rule", "subdomain / host matching", "redirect_to", "non-ASCII and percent-encoded paths"]

MAPS = [
    ["/", "/a", "/a/", "/<x>"],
    ["/a/<int:n>", "/a/<x>", "/a/b"],
    ["/<path:p>", "/a/<x>/b", "/a"],
    ["/f/<float:v>", "/f/<int:n>", "/f/<x>"],
    ["/<any(a,b):k>/c", "/<x>/c", "/a/c"],
    ["/u/<string(length=2):s>", "/u/<string(minlength=3):s>"],
    ["/p/<int(fixed_digits=2):n>", "/p/<int:n>/"],
    ["/m|GET", "/m|POST", "/m/<x>|PUT"],
    ["/a/<x>/", "/a/<x>/b", "/a/<path:p>"],
    ["/pre<x>suf", "/pre<int:n>", "/<x>.j"],
]

# maps with defaults / alias rules (C12): specs are dicts
EXTRA_MAPS = [
    [{"rule": "/d/", "endpoint": "d", "defaults": {"page": 1}}, {"rule": "/d/<int:page>", "endpoint": "d"}, "/e"],
    [{"rule": "/k/<x>", "endpoint": "k"}, {"rule": "/old/<x>", "endpoint": "k", "alias": True}, "/k"],
    # a defaults rule that covers more arguments than its sibling has: no canonicalisation
    [{"rule": "/x/", "endpoint": "x", "defaults": {"page": 1, "sort": "d"}}, {"rule": "/x/<int:page>", "endpoint": "x"}],
    # a strict branch rule for one method next to a catch-all for another
    [{"rule": "/it/", "endpoint": "items", "methods": ["GET"]}, {"rule": "/<name>", "endpoint": "create", "methods": ["POST"]},
     {"rule": "/up/", "endpoint": "up-get", "methods": ["GET"]}],
]


# further matching maps, appended last so that the indices above stay stable:
# converters of different weight in a NON-final segment (priority must not depend on the
# order in which the rules were added), and converters in two segments
MORE_MAPS = [
    ["/<string:a>/x", "/<int:b>/x", "/<float:f>/x"],
    ["/v<string:a>/i/", "/v<int:b>/i/", "/<x>/<int:n>", "/<int:n>/<x>"],
    # rules that share a leading variable segment: the weights behind it decide
    ["/<a>/<b>", "/<a>/<int:n>", "/<a>/<float:f>"],
    # branch rules per method next to a leaf for another method (strict_slashes off: the
    # slash-less form must still respect the method sets)
    ["/a/|GET", "/a/|POST", "/<x>|PUT", "/<int:n>/|DELETE"],
    # converters that restrict what they accept beyond their regex (digit count, length), without
    # a sibling rule that could take over
    ["/q/<int(fixed_digits=2):n>", "/w/<string(length=2):s>/x", "/z/<string(minlength=2,maxlength=3):s>"],
]


# alias rules that carry more defaults than the canonical rule they point to (C12)
ALIAS_MAPS = [
    [{"rule": "/r/<int:y>", "endpoint": "r"}, {"rule": "/r/l", "endpoint": "r", "defaults": {"y": 7}, "alias": True}],
    [{"rule": "/s/<x>/<int:p>", "endpoint": "s"}, {"rule": "/s/<x>", "endpoint": "s", "defaults": {"p": 1}, "alias": True}, "/s"],
    # an alias that binds one argument more than its canonical rule
    [{"rule": "/i/<int:n>", "endpoint": "i"}, {"rule": "/i/<int:n>/<t>", "endpoint": "i", "alias": True}],
    # a strict branch rule whose path converter legitimately admits doubled slashes
    ["/<path:p>/", "/x"],
]


def ALL_MAPS():
    return MAPS + EXTRA_MAPS + MORE_MAPS + ALIAS_MAPS


_seg_re = re.compile(r"<(?:(?P<conv>[a-zA-Z_]\w*)(?:\((?P<args>[^)]*)\))?:)?(?P<name>\w+)>")


def parse_rule(text):
    """independent reading of a rule string: (regex source, groups, specificity key,
    is_branch, methods)"""
    spec = {}
    if isinstance(text, dict):
        spec = text
        text = spec["rule"] + ("|" + ",".join(spec["methods"]) if spec.get("methods") else "")
    rule, _, methods = text.partition("|")
    methods = set(methods.split(",")) if methods else None
    if methods and "GET" in methods:
        methods.add("HEAD")
    branch = rule.endswith("/") and rule != "/"
    body = rule[:-1] if branch else rule
    out = ""
    groups = []
    key = []
    pos = 0
    for seg in body.split("/")[1:] if body != "/" else [""]:
        out += "/"
        segkey = 0
        p = 0
        for m in _seg_re.finditer(seg):
            out += re.escape(seg[p:m.start()])
            conv, args, name = m.group("conv") or "default", m.group("args") or "", m.group("name")
            kw = dict(a.strip().split("=") for a in args.split(",") if "=" in a)
            if conv in ("default", "string"):
                if "length" in kw:
                    frag = "[^/]{%s}" % kw["length"]
                elif "minlength" in kw or "maxlength" in kw:
                    frag = "[^/]{%s,%s}" % (kw.get("minlength", "1"), kw.get("maxlength", ""))
                else:
                    frag = "[^/]+"
                segkey = max(segkey, 2)
            elif conv == "int":
                frag = r"\d{%s}" % kw["fixed_digits"] if "fixed_digits" in kw else r"\d+"
                segkey = max(segkey, 1)
            elif conv == "float":
                frag = r"\d+\.\d+"
                segkey = max(segkey, 1)
            elif conv == "any":
                frag = "(?:" + "|".join(re.escape(a.strip()) for a in args.split(",")) + ")"
                segkey = max(segkey, 2)
            elif conv == "path":
                frag = "[^/].*?"
                if branch and m.end() == len(seg) and body.endswith("/" + seg) and out.count("(?P<") == body.count("<") - 1:
                    # a path value in front of the branch slash does not itself end in '/'
                    # ('/x//' is not p='x/' plus the slash)
                    frag = "[^/](?:.*?[^/])?"
                segkey = 3
            else:
                raise ValueError(conv)
            out += f"(?P<{name}>{frag})"
            groups.append((name, conv))
            p = m.end()
        out += re.escape(seg[p:])
        key.append(segkey)
    if body == "/":
        out = "/"
    return {"text": text, "rule": rule, "regex": out, "groups": groups, "key": tuple(key), "branch": branch, "methods": methods,
            "endpoint": spec.get("endpoint", text), "defaults": spec.get("defaults") or {}, "alias": spec.get("alias", False)}


def pfullmatch(regex, text, X):
    """groupdict of a full match of the reference regex, or None (plain or symbolic text)"""
    pat = re.compile(regex, re.ASCII)
    if X.symbolic:
        from symex import rx

        m = rx.fullmatch(pat, text)
    else:
        m = pat.fullmatch(text)
    return None if m is None else m.groupdict()


def admits(ref, path, X, strict):
    """how the rule admits the path: 'exact', 'slash' (needs a trailing-slash redirect), or None"""
    if ref["branch"]:
        g = pfullmatch(ref["regex"] + "/", path, X)
        if g is not None:
            return "exact", g
        g = pfullmatch(ref["regex"], path, X)
        if g is not None:
            return ("slash" if strict else "exact"), g
        return None, None
    g = pfullmatch(ref["regex"], path, X)
    if g is not None:
        return "exact", g
    if not strict:
        g = pfullmatch(ref["regex"] + "/", path, X)
        if g is not None:
            return "exact", g
    return None, None


def ref_admits_text(regex, tail, X):
    # on the path as sent and on its slash-merged form (the router redirects to the latter)
    p = pconcat("/", tail.lstrip("/"))
    return pfullmatch(regex, merged(p), X) is not None


def conv_value(conv, text):
    from symex.poly import pint

    if conv == "int":
        return pint(text)
    return text


def install_builder_capture():
    """werkzeug generates each rule's URL builder as an AST and compiles it; shadow
    `compile` in werkzeug.routing.rules (harness side, no repo change) so that the very AST
    werkzeug generated on this run is what the symbolic interpreter executes"""
    import builtins

    from symex.interp import register_generated
    from werkzeug.routing import rules as R

    if getattr(R, "compile", None) is not None and getattr(R.compile, "_verif_capture", False):
        return

    def capturing_compile(source, filename, mode, *a, **kw):
        code = builtins.compile(source, filename, mode, *a, **kw)
        if filename == "<werkzeug routing>" and not isinstance(source, (str, bytes)):
            register_generated(source, code)
        return code

    capturing_compile._verif_capture = True
    R.compile = capturing_compile


def build_map(mi, order, strict, merge, ws=False):
    from werkzeug.routing import Map, Rule

    install_builder_capture()

    texts = list(ALL_MAPS()[mi])
    texts = list(list(itertools.permutations(texts))[order % len(list(itertools.permutations(texts)))]) if order else texts
    rules = []
    for t in texts:
        if isinstance(t, dict):
            rules.append(Rule(t["rule"], endpoint=t.get("endpoint", t["rule"]), methods=t.get("methods"), defaults=t.get("defaults"),
                              alias=t.get("alias", False), websocket=ws))
            continue
        r, _, methods = t.partition("|")
        rules.append(Rule(r, endpoint=t, methods=methods.split(",") if methods else None, websocket=ws))
    m = Map(rules, strict_slashes=strict, merge_slashes=merge)
    m.update()
    return m, [parse_rule(t) for t in texts]


def merged(path):
    """collapse runs of slashes (reference for merge_slashes)"""
    out = path
    for _ in range(8):
        nxt = out.replace("//", "/")
        if plen(nxt) == plen(out):
            break
        out = nxt
    return out


def query_form(qform):
    """the query arguments handed to the router (string, dict, multi-valued mapping) and the
    query string every redirect must carry"""
    if qform == "str":
        return "q=1", "q=1"
    if qform == "dict":
        return {"q": "1", "id": "a b"}, "q=1&id=a+b"
    from werkzeug.datastructures import ImmutableMultiDict

    return ImmutableMultiDict([("q", "1"), ("id", "a b"), ("q", "2")]), "q=1&q=2&id=a+b"


def body_match(I, X, mi=0, order=0, strict=True, merge=True, n=3, method="GET", check_redirect=True, script="/", scheme="http", pct=False, qbind=False, qform="str", ws=False):
    from werkzeug.exceptions import MethodNotAllowed, NotFound
    from werkzeug.routing import RequestRedirect

    QA, QS = query_form(qform)

    # (ws: every rule is a WebSocket rule and the adapter is bound to ws / wss)
    m, refs = build_map(mi, order, strict, merge, ws)
    # the query string is given to match(), or (qbind) once at bind time as bind_to_environ does
    adapter = m.bind("example.org", script, url_scheme=scheme, query_args=QA if qbind else None)
    tail = X.str("path", n, minlen=n, maxcp=0x7E)
    X.assume(pall_in(tail, [(0x21, 0x7E)]))
    # no query / fragment markers; a literal '%' (the server delivers decoded paths, so this is
    # a percent sign the client sent as %25) only where the caller asks for it (C12)
    X.assume(pnone_in(tail, [0x3F, 0x23] if pct else [0x25, 0x3F, 0x23]))
    path = pconcat("/", tail)
    if not strict:
        # outside the claim: with strict_slashes off a branch rule also swallows a doubled
        # trailing slash ('/a//' matches '/a/'); the declarative reading does not say so
        X.assume(pnot(pendswith(path, "//")))
    # known finding: a converter whose to_python rejects text that its regex accepts
    # (int with fixed_digits) shadows the sibling rule that shares the same part
    if mi == 6:
        X.known("C03-validation-error-shadows-sibling-rule",
                pand(ref_admits_text(r"/p/\d+/?", tail, X), pnot(ref_admits_text(r"/p/\d\d", tail, X))))
    if ALL_MAPS()[mi] and ALL_MAPS()[mi][0] == "/q/<int(fixed_digits=2):n>":
        # the same defect without a sibling: the merged-slash retry accepts '/q//7' by the part
        # regex and redirects to '/q/7', which the converter then rejects
        X.known("C03-validation-error-shadows-sibling-rule",
                pand(ref_admits_text(r"/q/\d+/?", tail, X), pnot(ref_admits_text(r"/q/\d\d", tail, X)), pnot(peq(merged(path), path))))
    outcome = None
    try:
        mkw = {"path_info": path, "method": method, "return_rule": True}
        if not qbind:
            mkw["query_args"] = QA
        rule, args = I.call(adapter.match, (), mkw)
        outcome = ("match", rule.endpoint, dict(I.dict_items(args)) if not isinstance(args, dict) or X.symbolic else dict(args))
    except RequestRedirect as e:
        outcome = ("redirect", e.new_url)
    except MethodNotAllowed as e:
        outcome = ("405", sorted(e.valid_methods))
    except NotFound:
        outcome = ("404",)
    # ------------------------------------------------------------------ reference
    norm = pconcat("/", tail.lstrip("/"))   # MapAdapter.match normalises leading slashes
    adm = []
    for ref in refs:
        how, g = admits(ref, norm, X, strict)
        if how is not None:
            adm.append((ref, how, g))
    for_method = [(r, h, g) for r, h, g in adm if r["methods"] is None or method in r["methods"]]
    ok = True
    if outcome[0] == "match":
        cands = [(r, h, g) for r, h, g in for_method if h == "exact" and r["endpoint"] == outcome[1]]
        ok = len(cands) >= 1
        if ok:
            got_args = outcome[2]
            ok = False
            for r, h, g in cands:
                want = {name: (conv_value(conv, g[name]) if conv != "float" else None) for name, conv in r["groups"]}
                want.update(r["defaults"])
                this = len(got_args) == len(want) and all(
                    k in got_args and (v is None or bool(peq(got_args[k], v))) for k, v in want.items())
                if this:
                    # priority: nothing strictly more specific admits the path exactly for this method
                    if not any(h2 == "exact" and r2["key"] < r["key"] for r2, h2, g2 in for_method):
                        ok = True
    elif outcome[0] == "404":
        ok = len(adm) == 0
        if ok and merge:
            mp = merged(norm)
            if plen(mp) != plen(norm):
                for ref in refs:
                    how, g = admits(ref, mp, X, strict)
                    if how is not None:
                        ok = False
    elif outcome[0] == "405":
        adm405 = adm
        if not adm405 and merge:
            # nothing admits the path as sent; with merge_slashes the merged path counts
            mp = merged(norm)
            adm405 = [(r,) + admits(r, mp, X, strict) for r in refs]
            adm405 = [(r, h, g) for r, h, g in adm405 if h is not None]
        fm = [(r, h, g) for r, h, g in adm405 if r["methods"] is None or method in r["methods"]]
        ok = len(adm405) >= 1 and len([1 for r, h, g in fm if h == "exact"]) == 0
        if ok:
            # Allow lists the methods of the rules that admit the path in their own form; whether
            # rules that admit it only through the trailing-slash redirect / leniency are listed
            # too is left open
            want_max, want_min = set(), set()
            mp405 = norm if adm else merged(norm)
            for r, h, g in adm405:
                if r["methods"]:
                    want_max |= r["methods"]
                    if admits(r, mp405, X, True)[0] == "exact":
                        want_min |= r["methods"]
            if not want_min:
                want_min = want_max
            ok = want_min <= set(outcome[1]) <= want_max
    else:
        url = outcome[1]
        # C12: stays on the bound scheme/host/script root and keeps the query string
        root = f"{scheme}://example.org" + script.rstrip("/")
        prefix = root + "/"
        ok = pand(pstartswith(url, prefix), pendswith(url, "?" + QS))
        if bool(ok) and check_redirect:
            target = url[len(root): plen(url) - len("?" + QS)]
            # the target is the canonical form of the request: slash appended and/or slashes merged
            exp1 = pconcat(norm, "/")
            mp = merged(norm)
            slashy = por(peq(target, quoted(exp1)), peq(target, quoted(mp)), peq(target, quoted(pconcat(mp, "/"))))
            # what the request denotes: the rule (endpoint, arguments) admitting its canonical form
            denotes = []
            unmerged_hit = False
            for ci, cand in enumerate((norm, exp1, mp, pconcat(mp, "/"))):
                if ci == 2 and denotes:
                    # some rule admits the path as written (or with the slash appended): doubled
                    # slashes in it are data, the merged forms do not count
                    unmerged_hit = True
                    break
                for r in refs:
                    how, g = admits(r, cand, X, strict)
                    if how == "exact" and (r["methods"] is None or method in r["methods"]):
                        # float arguments are not compared (float() of solver text is a real)
                        a = {name: (conv_value(conv, g[name]) if conv != "float" else None) for name, conv in r["groups"]}
                        a.update(r["defaults"])
                        denotes.append((r["endpoint"], a, r["alias"]))
            has_special = any(r["defaults"] or r["alias"] for r in refs)
            ok = slashy if not has_special else True
            # convergence: re-matching the target gives a match (no further redirect) that
            # denotes the same endpoint and arguments
            # following the router's redirects terminates (a redirect of another kind -- merged
            # slashes, then defaults -- may follow, never the same URL again) in a match that
            # denotes the same endpoint and arguments
            cur = target
            seen_urls = [url]
            same = False
            for hop in range(4):
                try:
                    # the server delivers the percent-decoded path
                    rule2, args2 = I.call(adapter.match, (), {"path_info": punquote(cur), "method": method, "return_rule": True,
                                                              "query_args": QA})
                    got2 = dict(I.dict_items(args2))
                    for ep, a, is_alias in denotes:
                        if ep == rule2.endpoint and len(a) == len(got2) and all(k in got2 and (v is None or bool(peq(got2[k], v))) for k, v in a.items()):
                            same = True
                        # an alias rule may bind more arguments than the canonical rule it redirects
                        # to: what the canonical rule binds must agree
                        if is_alias and ep == rule2.endpoint and all(k in a and (a[k] is None or bool(peq(v, a[k]))) for k, v in got2.items()):
                            same = True
                    break
                except RequestRedirect as e2:
                    u2 = e2.new_url
                    if not bool(pand(pstartswith(u2, prefix), pendswith(u2, "?" + QS))) or any(bool(peq(u2, u)) for u in seen_urls):
                        break
                    seen_urls.append(u2)
                    cur = u2[len(root): plen(u2) - len("?" + QS)]
                except (NotFound, MethodNotAllowed):
                    break
            ok = pand(ok, same)
    return ok, {"outcome": outcome}


def punquote(s):
    """percent-decoding of ASCII escapes (plain or symbolic text)"""
    from urllib.parse import unquote

    from symex.seq import SSeq

    if not isinstance(s, SSeq):
        return unquote(s)
    import z3

    from symex.core import ctx
    from symex.seq import WS

    c = ctx()
    es = s.celems()
    out = []
    i = 0

    def hexval(e):
        return z3.If(z3.ULE(e, 57), e - 48, z3.If(z3.ULE(e, 70), e - 55, e - 87))

    def ishex(e):
        return z3.Or(z3.And(z3.UGE(e, 48), z3.ULE(e, 57)), z3.And(z3.UGE(e, 65), z3.ULE(e, 70)), z3.And(z3.UGE(e, 97), z3.ULE(e, 102)))

    while i < len(es):
        if i + 2 < len(es) and c.decide(z3.And(es[i] == 37, ishex(es[i + 1]), ishex(es[i + 2]))):
            v = z3.simplify(hexval(es[i + 1]) * 16 + hexval(es[i + 2]))
            if c.decide(z3.UGE(v, 128)):
                from symex.core import Unsupported

                raise Unsupported("unquote of a non-ASCII escape")
            out.append(v)
            i += 3
        else:
            out.append(es[i])
            i += 1
    return SSeq("str", out, len(out))


def quoted(p):
    """paths in this harness contain only characters that make_redirect_url leaves alone
    except for a few that quote() escapes; mirror that with the same safe set"""
    from urllib.parse import quote

    from symex.seq import SSeq

    if isinstance(p, SSeq):
        return quote_model(p, "!$&'()*+,/:;=@")
    return quote(p, safe="!$&'()*+,/:;=@")


_ALWAYS_SAFE = frozenset(b"ABCDEFGHIJKLMNOPQRSTUVWXYZabcdefghijklmnopqrstuvwxyz0123456789_.-~")


def quote_model(s, safe="/"):
    """urllib.parse.quote on symbolic text: bytes in the safe set stay, others -> %XX"""
    import z3

    from symex.core import ctx
    from symex.seq import SSeq, WS, bvv

    b = s.encode("utf-8") if s.kind == "str" else s
    safeset = _ALWAYS_SAFE | frozenset(safe.encode() if isinstance(safe, str) else safe)
    out = []
    c = ctx()
    for e in b.celems():
        if c.decide(z3.Or(*[e == x for x in sorted(safeset)])):
            out.append(z3.simplify(z3.ZeroExt(WS - 8, e)))
        else:
            out.append(bvv(ord("%"), WS))
            for nib in (z3.LShR(e, 4), e & 0x0F):
                out.append(z3.simplify(z3.ZeroExt(WS - 8, z3.If(z3.ULT(nib, 10), nib + 48, nib + 55))))
    return SSeq("str", out, len(out))


def unquote_model(s, encoding="utf-8", errors="replace"):
    """urllib.parse.unquote on symbolic text: '%XX' -> that byte, any other character -> its
    UTF-8 bytes, the whole decoded with (encoding, errors).  (The real function decodes each
    ASCII run separately; the results coincide because a raw non-ASCII character never starts
    or continues a partial sequence left by an escape.)  Validated natively on every path."""
    import z3

    from symex.core import ctx
    from symex.seq import SSeq, sconcat

    c = ctx()
    es = s.celems()
    out = SSeq("bytes", [], 0)
    i = 0

    def hexval(e):
        return z3.If(z3.ULE(e, 57), e - 48, z3.If(z3.ULE(e, 70), e - 55, e - 87))

    def ishex(e):
        return z3.Or(z3.And(z3.UGE(e, 48), z3.ULE(e, 57)), z3.And(z3.UGE(e, 65), z3.ULE(e, 70)), z3.And(z3.UGE(e, 97), z3.ULE(e, 102)))

    while i < len(es):
        if i + 2 < len(es) and c.decide(z3.And(es[i] == 37, ishex(es[i + 1]), ishex(es[i + 2]))):
            v = z3.simplify(z3.Extract(7, 0, hexval(es[i + 1]) * 16 + hexval(es[i + 2])))
            out = sconcat(out, SSeq("bytes", [v], 1))
            i += 3
        else:
            out = sconcat(out, s[i:i + 1].encode("utf-8"))
            i += 1
    if encoding is _BYTES:
        return out
    return out.decode(encoding or "utf-8", errors or "replace")


_BYTES = object()


def punquote_to_bytes(s):
    """full percent-decoding to bytes (plain or symbolic text): the byte content a URL denotes"""
    from urllib.parse import unquote_to_bytes

    from symex.seq import SSeq

    if isinstance(s, SSeq):
        return unquote_model(s, _BYTES)
    return unquote_to_bytes(s)


def make_stubs():
    import urllib.parse

    def quote_stub(I, string, safe="/", encoding=None, errors=None):
        from symex.seq import SSeq

        if isinstance(string, SSeq):
            return quote_model(string, safe)
        return urllib.parse.quote(string, safe, encoding, errors)

    def urlsplit_stub(I, url, scheme="", allow_fragments=True):
        """urllib.parse.urlsplit is wrapped in functools.lru_cache (C, hashes its arguments):
        the wrapped pure-Python function is interpreted instead"""
        return I.call(urllib.parse.urlsplit.__wrapped__, (url, scheme, allow_fragments))

    return {urllib.parse.quote: quote_stub, urllib.parse.urlsplit: urlsplit_stub}


def quote_selftest():
    from urllib.parse import quote

    from symex import core
    from symex.seq import SSeq

    saved = core._ctx
    core.set_ctx(core.Ctx(max_cp=0x10FFFF))
    n = 0
    try:
        for safe in ("/", "!$&'()*+,/:;=@", ""):
            for s in ["", "a/b", "a b", "%", "é", "€/~", "a;b?c#d", "\x00\x7f", "A-Z_.~"] + [chr(c) for c in range(0x20, 0x7F)]:
                got = quote_model(SSeq.const(s), safe)
                assert got.is_concrete() and got.concrete() == quote(s, safe=safe), (s, safe, got, quote(s, safe=safe))
                n += 1
    finally:
        core.set_ctx(saved)
    return n


def extra_checks(tier, seed, active_known):
    import time

    t0 = time.time()
    try:
        n = quote_selftest()
        return [{"name": "quote-model-differential", "complete": True,
                 "summary": {"name": "urllib.parse.quote model vs stdlib", "cases": n, "wall_s": round(time.time() - t0, 2)},
                 "samples": [{"stub_differential": "urllib.parse.quote", "cases_compared": n}]}]
    except AssertionError as e:
        return [{"name": "quote-model-differential", "complete": False, "engine_errors": [{"what": "stub differential failed", "detail": str(e)[:300]}]}]


def obligations(tier, seed, prop="C03"):
    out = []
    quick = tier == "quick"
    orders = [0, 3, 5] if quick else [0, 1, 2, 3, 4, 5]
    # (+ the path-branch map of the redirect family: what a branch path rule admits is a matching question too)
    for mi in list(range(len(MAPS))) + [len(MAPS) + len(EXTRA_MAPS) + k for k in range(len(MORE_MAPS))] + [len(ALL_MAPS()) - 1]:
        for order in orders:
            for strict, merge in [(True, True), (True, False), (False, True), (False, False)]:
                methods = ["GET", "POST"] if any("|" in t for t in ALL_MAPS()[mi]) else ["GET"]
                for method in methods:
                    for n in (range(0, 6) if quick else range(0, 8)):
                        out.append({"name": f"match[map={mi},order={order},strict={strict},merge={merge},{method},n={n}]", "body": "body_match",
                                    "params": {"mi": mi, "order": order, "strict": strict, "merge": merge, "n": n, "method": method},
                                    "opts": {"budget_s": 600 if quick else 3000, "ctx": {"max_cp": 0x7E}},
                                    "witness": n == 2 and order == 0 and strict and mi in (0, 1)})
    return out
