"""C08 -- multi-value containers behave exactly like their documented model.

HeaderSet, Headers and MultiDict (and the immutable variants' mutator blocking) are
executed symbolically through enumerated operation histories whose keys / elements are
solver characters (so every letter-case and equality pattern is covered) and compared
after every step with an abstract model written in the harness.
"""
from __future__ import annotations

import itertools

from symex.poly import pall_in, pand, pconcat, peq, pimplies, plen, pnone_in, pnot, por

PROPERTY = "C08"
BOUNDS = {
    "quick": {"history": "every sequence of 2 operations over the listed operations (plus every length-3 sequence of add/remove/discard for HeaderSet)", "keys/elements": "1 solver character each over {a, A, b, B, c}",
              "values": "distinct concrete tokens"},
    "thorough": {"histories": "HeaderSet: all length-3 sequences + length-4 over add/remove/discard/update; Headers / MultiDict: all length-2 + length-3 over six core mutators"},
}
STUBS = ["pickle / copy.deepcopy drivers: harness.c08.clone_value spells the copyreg protocol out over __reduce_ex__ / __getstate__ / __setstate__ / __deepcopy__ of the real containers; every path is validated natively through the real pickle (protocols 2, 4, 5) and copy modules"]
ASSUMPTIONS = ["HeaderSet item assignment is only exercised with a value not already present elsewhere (otherwise the documented set model does not define the result)",
               "elements / keys are single characters from a five-letter alphabet with both cases"]
OUTSIDE = ["the C drivers of pickle / copy.deepcopy themselves (spelled out over the containers' protocol methods on solver paths, the real modules on every native validation); hashing of mutable containers", "CombinedMultiDict, FileMultiDict, EnvironHeaders", "type-converting get", "constructor input variants"]

ALPHA = [0x61, 0x41, 0x62, 0x42, 0x63]


def sym_char(X, name):
    c = X.str(name, 1, minlen=1, maxcp=0x7F)
    X.assume(pall_in(c, ALPHA))
    return c


def lower(x):
    return x.lower()


def same_ci(a, b):
    return bool(peq(lower(a), lower(b)))


# ------------------------------------------------------------------------ HeaderSet
HS_OPS = ["add", "remove", "discard", "update2", "delitem0", "setitem0", "clear"]


def body_headerset(I, X, ops=("add", "remove")):
    from werkzeug.datastructures import HeaderSet

    a0 = sym_char(X, "init0")
    a1 = sym_char(X, "init1")
    X.assume(pnot(peq(lower(a0), lower(a1))))
    updates = []
    hs = I.call(HeaderSet, ([a0, a1], lambda s: updates.append(1)))
    model = [a0, a1]
    ok = True
    trace = []
    for j, op in enumerate(ops):
        x = sym_char(X, f"x{j}")
        exc = None
        try:
            if op == "add":
                I.call(hs.add, (x,))
            elif op == "remove":
                I.call(hs.remove, (x,))
            elif op == "discard":
                I.call(hs.discard, (x,))
            elif op == "update2":
                I.call(hs.update, ([x, "c"],))
            elif op == "delitem0":
                I.call(hs.__delitem__, (0,))
            elif op == "setitem0":
                if model:
                    X.assume(pnot(por(*[peq(lower(x), lower(m)) for m in model[1:]])) if len(model) > 1 else True)
                I.call(hs.__setitem__, (0, x))
            elif op == "clear":
                I.call(hs.clear, ())
        except KeyError:
            exc = "KeyError"
        except IndexError:
            exc = "IndexError"
        # model step
        mexc = None
        if op == "add":
            if not any(same_ci(x, m) for m in model):
                model.append(x)
        elif op in ("remove", "discard"):
            hit = [i for i, m in enumerate(model) if same_ci(x, m)]
            if hit:
                del model[hit[0]]
            elif op == "remove":
                mexc = "KeyError"
        elif op == "update2":
            for y in (x, "c"):
                if not any(same_ci(y, m) for m in model):
                    model.append(y)
        elif op == "delitem0":
            if model:
                del model[0]
            else:
                mexc = "IndexError"
        elif op == "setitem0":
            if model:
                model[0] = x
            else:
                mexc = "IndexError"
        elif op == "clear":
            model = []
        ok = pand(ok, exc == mexc)
        # every read agrees with the model
        items = list(I.call(hs.__iter__, ()))
        ok = pand(ok, len(items) == len(model), I.call(hs.__len__, ()) == len(model))
        if len(items) == len(model):
            for g, m in zip(items, model):
                ok = pand(ok, peq(g, m))
        for probe in ("a", "B", "c"):
            ok = pand(ok, bool(I.call(hs.__contains__, (probe,))) == any(same_ci(probe, m) for m in model))
            exp_idx = next((i for i, m in enumerate(model) if same_ci(probe, m)), -1)
            ok = pand(ok, I.call(hs.find, (probe,)) == exp_idx)
        hdr = I.call(hs.to_header, ())
        ok = pand(ok, peq(hdr, pconcat("", *[pconcat(", " if i else "", m) for i, m in enumerate(model)]) if model else ""))
        trace.append((op, exc))
    return ok, {"trace": trace, "final": list(I.call(hs.__iter__, ()))}


# -------------------------------------------------------------------------- Headers
H_OPS = ["add", "set", "setitem", "remove", "pop", "pop-index", "delitem", "setdefault", "extend", "setlist", "popitem", "clear"]


def body_headers(I, X, ops=("add", "set")):
    from werkzeug.datastructures import Headers

    k0 = sym_char(X, "init0")
    h = I.call(Headers, ([(k0, "v0"), ("c", "v1")],))
    model = [(k0, "v0"), ("c", "v1")]
    ok = True
    trace = []
    for j, op in enumerate(ops):
        k = sym_char(X, f"k{j}")
        v = f"w{j}"
        exc = None
        ret = None
        try:
            if op == "add":
                I.call(h.add, (k, v))
            elif op == "set":
                I.call(h.set, (k, v))
            elif op == "setitem":
                I.call(h.__setitem__, (k, v))
            elif op == "remove":
                I.call(h.remove, (k,))
            elif op == "pop":
                ret = I.call(h.pop, (k,))
            elif op == "pop-index":
                # positional access in the ordered pair list (0 is an index, not "no argument")
                pidx = X.cint(f"idx{j}", 0, 2)
                ret = I.call(h.pop, (pidx,))
            elif op == "delitem":
                I.call(h.__delitem__, (k,))
            elif op == "setdefault":
                ret = I.call(h.setdefault, (k, v))
            elif op == "extend":
                I.call(h.extend, ([(k, v), ("c", v + "x")],))
            elif op == "setlist":
                I.call(h.setlist, (k, [v, v + "y"]))
            elif op == "popitem":
                ret = I.call(h.popitem, ())
            elif op == "clear":
                I.call(h.clear, ())
        except KeyError:
            exc = "KeyError"
        except IndexError:
            # Headers.popitem on an empty object pops from its list
            exc = "KeyError" if op == "popitem" else "IndexError"
        mexc = None
        mret = None
        hit = [i for i, (mk, mv) in enumerate(model) if same_ci(k, mk)]
        if op == "add":
            model.append((k, v))
        elif op in ("set", "setitem"):
            if hit:
                first = hit[0]
                model = [(mk, mv) for i, (mk, mv) in enumerate(model) if i == first or i not in hit]
                idx = [i for i, (mk, mv) in enumerate(model) if same_ci(k, mk)][0]
                model[idx] = (k, v)
            else:
                model.append((k, v))
        elif op == "remove":
            model = [(mk, mv) for i, (mk, mv) in enumerate(model) if i not in hit]
        elif op == "delitem":
            model = [(mk, mv) for i, (mk, mv) in enumerate(model) if i not in hit]
        elif op == "pop":
            if hit:
                mret = model[hit[0]][1]
                model = [(mk, mv) for i, (mk, mv) in enumerate(model) if i not in hit]
            else:
                mexc = "KeyError"
        elif op == "setdefault":
            if hit:
                mret = model[hit[0]][1]
            else:
                model.append((k, v))
                mret = v
        elif op == "extend":
            model.append((k, v))
            model.append(("c", v + "x"))
        elif op == "setlist":
            if hit:
                first = hit[0]
                rest = [(mk, mv) for i, (mk, mv) in enumerate(model) if i not in hit]
                # the first value replaces the first occurrence, further values follow it ... documented: "removes existing, adds new"
                model = None
            else:
                model.append((k, v))
                model.append((k, v + "y"))
        elif op == "popitem":
            if model:
                mret = model[-1]
                model = model[:-1]
            else:
                mexc = "KeyError"
        elif op == "pop-index":
            if pidx < len(model):
                mret = model[pidx]
                model = model[:pidx] + model[pidx + 1:]
            else:
                mexc = "IndexError"
        elif op == "clear":
            model = []
        items = [(a, b) for a, b in I.call(h.__iter__, ())]
        if model is None:
            # setlist on an existing key: only the multiset of values for the key and the
            # other keys' pairs are specified
            vals = I.call(h.getlist, (k,))
            ok = pand(ok, len(vals) == 2 and vals[0] == v and vals[1] == v + "y")
            model = items
        ok = pand(ok, exc == mexc)
        if op in ("pop", "setdefault") and mexc is None:
            ok = pand(ok, ret == mret)
        if op in ("popitem", "pop-index") and mexc is None:
            ok = pand(ok, peq(ret[0], mret[0]), ret[1] == mret[1])
        ok = pand(ok, len(items) == len(model), I.call(h.__len__, ()) == len(model))
        if len(items) == len(model):
            for (gk, gv), (mk, mv) in zip(items, model):
                ok = pand(ok, peq(gk, mk), gv == mv)
        for probe in ("a", "B", "c"):
            mvals = [mv for mk, mv in model if same_ci(probe, mk)]
            ok = pand(ok, bool(I.call(h.__contains__, (probe,))) == bool(mvals))
            ok = pand(ok, I.call(h.getlist, (probe,)) == mvals)
            ok = pand(ok, I.call(h.get, (probe,)) == (mvals[0] if mvals else None))
        trace.append((op, exc))
    return ok, {"trace": trace, "final": items}


# ------------------------------------------------------------------------ MultiDict
MD_OPS = ["add", "setitem", "setlist", "setdefault", "pop", "poplist", "delitem", "update", "popitem", "clear", "setlistdefault"]


def md_items(I, md):
    return [(k, v) for k, v in I.call(md.items, (), {"multi": True})]


def body_multidict(I, X, ops=("add", "pop"), cls="MultiDict"):
    from werkzeug import datastructures as ds
    from werkzeug.exceptions import BadRequestKeyError

    klass = getattr(ds, cls)
    k0 = sym_char(X, "init0")
    md = I.call(klass, ([(k0, "v0"), ("c", "v1"), (k0, "v2")],))
    # model: ordered dict key -> list (keys are case-sensitive here)
    model = []

    def m_find(key):
        for i, (mk, mv) in enumerate(model):
            if bool(peq(mk, key)):
                return i
        return -1

    for key, val in [(k0, "v0"), ("c", "v1"), (k0, "v2")]:
        i = m_find(key)
        if i < 0:
            model.append([key, [val]])
        else:
            model[i][1].append(val)
    ok = True
    trace = []
    for j, op in enumerate(ops):
        k = sym_char(X, f"k{j}")
        v = f"w{j}"
        exc = ret = mexc = mret = None
        try:
            if op == "add":
                I.call(md.add, (k, v))
            elif op == "setitem":
                I.call(md.__setitem__, (k, v))
            elif op == "setlist":
                I.call(md.setlist, (k, [v, v + "y"]))
            elif op == "setdefault":
                ret = I.call(md.setdefault, (k, v))
            elif op == "pop":
                ret = I.call(md.pop, (k,))
            elif op == "poplist":
                ret = I.call(md.poplist, (k,))
            elif op == "delitem":
                I.call(md.__delitem__, (k,))
            elif op == "update":
                I.call(md.update, ([(k, v), ("c", v + "x")],))
            elif op == "popitem":
                ret = I.call(md.popitem, ())
            elif op == "clear":
                I.call(md.clear, ())
            elif op == "setlistdefault":
                ret = list(I.call(md.setlistdefault, (k, [v])))
        except BadRequestKeyError:
            exc = "KeyError"
        except KeyError:
            exc = "KeyError"
        i = m_find(k)
        if op == "add":
            if i < 0:
                model.append([k, [v]])
            else:
                model[i][1].append(v)
        elif op == "setitem":
            if i < 0:
                model.append([k, [v]])
            else:
                model[i][1] = [v]
        elif op == "setlist":
            if i < 0:
                model.append([k, [v, v + "y"]])
            else:
                model[i][1] = [v, v + "y"]
        elif op == "setdefault":
            if i < 0:
                model.append([k, [v]])
                mret = v
            else:
                mret = model[i][1][0]
        elif op == "pop":
            if i < 0:
                mexc = "KeyError"
            else:
                mret = model[i][1][0]
                del model[i]
        elif op == "poplist":
            if i < 0:
                mret = []
            else:
                mret = model[i][1]
                del model[i]
        elif op == "delitem":
            if i < 0:
                mexc = "KeyError"
            else:
                del model[i]
        elif op == "update":
            for kk, vv in [(k, v), ("c", v + "x")]:
                ii = m_find(kk)
                if ii < 0:
                    model.append([kk, [vv]])
                else:
                    model[ii][1].append(vv)
        elif op == "popitem":
            if not model:
                mexc = "KeyError"
            else:
                mret = (model[-1][0], model[-1][1][0])
                del model[-1]
        elif op == "clear":
            model = []
        elif op == "setlistdefault":
            if i < 0:
                model.append([k, [v]])
                mret = [v]
            else:
                mret = list(model[i][1])
        ok = pand(ok, exc == mexc)
        if mexc is None and op in ("setdefault", "pop", "poplist", "setlistdefault"):
            ok = pand(ok, ret == mret)
        if mexc is None and op == "popitem":
            ok = pand(ok, peq(ret[0], mret[0]), ret[1] == mret[1])
        items = md_items(I, md)
        flat = [(mk, mv) for mk, vals in model for mv in vals]
        ok = pand(ok, len(items) == len(flat), I.call(md.__len__, ()) == len(model))
        if len(items) == len(flat):
            for (gk, gv), (mk, mv) in zip(items, flat):
                ok = pand(ok, peq(gk, mk), gv == mv)
        for probe in ("a", "A", "c"):
            ii = m_find(probe)
            ok = pand(ok, bool(I.call(md.__contains__, (probe,))) == (ii >= 0))
            ok = pand(ok, I.call(md.getlist, (probe,)) == (model[ii][1] if ii >= 0 else []))
            ok = pand(ok, I.call(md.get, (probe,)) == (model[ii][1][0] if ii >= 0 else None))
        trace.append((op, exc))
    return ok, {"trace": trace, "final": md_items(I, md)}


def body_combined(I, X, late_add=False):
    """CombinedMultiDict is a read-through combination of its wrapped dicts: one entry per
    distinct key (len, keys, iteration), values of a key concatenated in wrapping order,
    item access = first value, also after a wrapped dict is mutated behind the view"""
    from werkzeug import datastructures as ds

    k0, k1, k2 = sym_char(X, "k0"), sym_char(X, "k1"), sym_char(X, "k2")
    d1 = I.call(ds.MultiDict, ([(k0, "v0"), ("c", "v1")],))
    d2 = I.call(ds.MultiDict, ([(k1, "w0"), (k0, "w1")],))
    cmd = I.call(ds.CombinedMultiDict, ([d1, d2],))
    pairs1, pairs2 = [(k0, "v0"), ("c", "v1")], [(k1, "w0"), (k0, "w1")]
    if late_add:
        I.call(d2.add, (k2, "w2"))
        pairs2.append((k2, "w2"))
    def grouped(pairs):
        # a MultiDict keeps the values of one key together, keys in first-seen order
        out = []
        for k, v in pairs:
            for g in out:
                if bool(peq(g[0], k)):
                    g[1].append(v)
                    break
            else:
                out.append((k, [v]))
        return [(k, v) for k, vs in out for v in vs]

    allpairs = grouped(pairs1) + grouped(pairs2)
    distinct = []
    for k, _ in allpairs:
        if not any(bool(peq(k, d)) for d in distinct):
            distinct.append(k)
    ok = True
    n = I.call(cmd.__len__, ())
    keys = list(I.call(cmd.keys, ()))
    it = list(I.call(cmd.__iter__, ()))
    ok = pand(ok, n == len(distinct), len(keys) == len(distinct), len(it) == len(distinct))
    for d in distinct:
        ok = pand(ok, any(bool(peq(d, k)) for k in keys), bool(I.call(cmd.__contains__, (d,))))
        want = [v for k, v in allpairs if bool(peq(k, d))]
        got = list(I.call(cmd.getlist, (d,)))
        ok = pand(ok, got == want, I.call(cmd.__getitem__, (d,)) == want[0])
    multi = [(k, v) for k, v in I.call(cmd.items, (), {"multi": True})]
    ok = pand(ok, len(multi) == len(allpairs))
    if len(multi) == len(allpairs):
        for (a, b), (c, d) in zip(multi, allpairs):
            ok = pand(ok, peq(a, c), b == d)
    single = [(k, v) for k, v in I.call(cmd.items, ())]
    ok = pand(ok, len(single) == len(distinct))
    # values() / listvalues() / lists() are the value sides of items() / lists(), one per distinct key
    vals = list(I.call(cmd.values, ()))
    ok = pand(ok, len(vals) == len(single), all(a == b for a, (_, b) in zip(vals, single)))
    lsts = [(k, list(v)) for k, v in I.call(cmd.lists, ())]
    lvals = [list(v) for v in I.call(cmd.listvalues, ())]
    ok = pand(ok, len(lsts) == len(distinct), len(lvals) == len(lsts), all(a == b for a, (_, b) in zip(lvals, lsts)))
    for (k, v), (k2, _) in zip(lsts, single):
        ok = pand(ok, peq(k, k2), v == [b for a, b in multi if bool(peq(a, k))])
    td = I.call(cmd.to_dict, ())
    ok = pand(ok, len(list(I.dict_items(td))) == len(distinct))
    # get() with a type: the first wrapped dict whose first value for the key converts wins
    d3 = I.call(ds.MultiDict, ([(k0, "x"), ("c", "5")],))
    d4 = I.call(ds.MultiDict, ([(k1, "7"), (k0, "8")],))
    cmd2 = I.call(ds.CombinedMultiDict, ([d3, d4],))
    for probe in (k0, k1, "c"):
        want = None
        for pairs in ([(k0, "x"), ("c", "5")], [(k1, "7"), (k0, "8")]):
            firsts = [v for k, v in pairs if bool(peq(k, probe))]
            if firsts and firsts[0].isdigit():
                want = int(firsts[0])
                break
        got = I.call(cmd2.get, (probe,), {"type": int})
        ok = pand(ok, got == want)
    return ok, {"len": n, "multi": [list(x) for x in multi]}


def body_environ_headers(I, X, n=1):
    """EnvironHeaders always reflects the environ: every HTTP_* variable (also with an empty
    value) shows in iteration, len, get and membership; CONTENT_TYPE / CONTENT_LENGTH only when
    non-empty (documented), also after the environ changes behind the view"""
    from werkzeug import datastructures as ds

    v0 = X.str("v0", n, minlen=0, maxcp=0x7E)
    v1 = X.str("v1", n, minlen=0, maxcp=0x7E)
    for v in (v0, v1):
        X.assume(pall_in(v, [(0x20, 0x7E)]))
    environ = {"HTTP_X_A": v0, "CONTENT_TYPE": v1, "REQUEST_METHOD": "GET", "HTTP_HOST": "h"}
    h = I.call(ds.EnvironHeaders, (environ,))
    ok = True
    for stage in (0, 1):
        if stage == 1:
            environ["HTTP_X_B"] = v1
        items = [(k, v) for k, v in I.call(h.__iter__, ())]
        want = [("X-A", v0)]
        if plen(v1) > 0:
            want.append(("Content-Type", v1))
        want.append(("Host", "h"))
        if stage == 1:
            want.append(("X-B", v1))
        ok = pand(ok, len(items) == len(want), I.call(h.__len__, ()) == len(want))
        if len(items) == len(want):
            for (a, b), (c, d) in zip(items, want):
                ok = pand(ok, a == c, peq(b, d))
        ok = pand(ok, bool(I.call(h.__contains__, ("X-A",))), peq(I.call(h.get, ("x-a",)), v0))
        got_list = list(I.call(h.getlist, ("X-A",)))
        ok = pand(ok, len(got_list) == 1 and bool(peq(got_list[0], v0)))
    return ok, {"items": [list(x) for x in items]}


def body_immutable_hash(I, X, cls="ImmutableMultiDict", shape="swap"):
    """equality and hashing of the immutable containers are consistent: containers that
    compare equal hash equal (whatever the insertion order)"""
    from werkzeug import datastructures as ds

    klass = getattr(ds, cls)
    k0, k1, k2 = sym_char(X, "k0"), sym_char(X, "k1"), sym_char(X, "k2")
    if shape == "swap":
        pa, pb = [(k0, "v0"), (k1, "v1")], [(k1, "v1"), (k0, "v0")]
    elif shape == "three":
        pa, pb = [(k0, "v0"), (k1, "v1"), (k2, "v2")], [(k2, "v2"), (k0, "v0"), (k1, "v1")]
    else:
        pa, pb = [(k0, "v0"), (k1, "v1")], [(k2, "v0"), (k1, "v1")]
    if cls != "ImmutableMultiDict":
        # plain dict semantics: a repeated key keeps the last value; keep keys distinct
        X.assume(pnot(peq(k0, k1)))
        X.assume(pnot(peq(k1, k2)))
        X.assume(pnot(peq(k0, k2)))
    a = I.call(klass, (pa,))
    b = I.call(klass, (pb,))
    eq = I.call(a.__eq__, (b,))
    eq = False if eq is NotImplemented else bool(eq)
    ha = I.call(hash, (a,))
    hb = I.call(hash, (b,))
    same = ha == hb
    same = bool(same)
    ok = (not eq) or same
    return ok, {"equal": bool(eq), "hash_equal": same}


def _is_wz(v):
    return type(v).__module__.startswith("werkzeug.")


def clone_value(I, v, how):
    """what pickle / copy.deepcopy do to a value, spelled out over the protocol methods the
    containers define (the protocol drivers themselves are C): lists, tuples and dicts are
    rebuilt member by member, text and numbers are kept, werkzeug containers go through their
    own __reduce_ex__ / __getstate__ / __setstate__ / __deepcopy__"""
    if isinstance(v, list) and type(v) is list:
        return [clone_value(I, x, how) for x in v]
    if isinstance(v, tuple) and type(v) is tuple:
        return tuple(clone_value(I, x, how) for x in v)
    from symex.symdict import SymDict

    if isinstance(v, SymDict):
        d = SymDict()
        for k, x in v.s_items():
            d.s_set(k, clone_value(I, x, how))
        return d
    if type(v) is dict:
        return {k: clone_value(I, x, how) for k, x in v.items()}
    if _is_wz(v):
        return persist_clone(I, v, how)
    return v


def persist_clone(I, obj, how):
    cls = type(obj)
    if how == "deepcopy" and hasattr(cls, "__deepcopy__"):
        return I.call(obj.__deepcopy__, ({},))
    if cls.__reduce_ex__ is not object.__reduce_ex__:
        # copyreg protocol: callable(*args)
        fn, args = I.call(obj.__reduce_ex__, (4,))
        return I.call(fn, tuple(clone_value(I, a, how) for a in args))
    if isinstance(obj, dict):
        # object.__reduce_ex__(2+) of a dict subclass: __newobj__(cls), the pairs of obj.items()
        # set one by one through __setitem__, then __setstate__(__getstate__())
        clone = cls.__new__(cls)
        for k, v in list(I.call(obj.items, ())):
            I.call(clone.__setitem__, (k, clone_value(I, v, how)))
        state = clone_value(I, I.call(obj.__getstate__, ()), how)
        I.call(clone.__setstate__, (state,))
        return clone
    # plain object: __newobj__(cls) and the instance dict
    clone = cls.__new__(cls)
    for k, v in obj.__dict__.items():
        setattr(clone, k, clone_value(I, v, how))
    return clone


def body_persist(I, X, cls="ImmutableMultiDict", how="pickle", n=3):
    """pickling and deep-copying are consistent with equality and hashing: the clone has the
    same type and the same pairs in the same order (repeated keys included), compares equal,
    hashes equal (immutable variants) and is independent of the original.  On the solver
    paths the C protocol drivers are spelled out over the methods the containers define
    (clone_value); the native validation of every path goes through the real pickle / copy
    modules, so the two must agree on every path."""
    from werkzeug import datastructures as ds

    klass = getattr(ds, cls)
    keys = [sym_char(X, f"k{i}") for i in range(n)]
    pairs = [(k, f"v{i}") for i, k in enumerate(keys)]
    dictlike = cls in ("ImmutableDict", "ImmutableTypeConversionDict", "TypeConversionDict")
    if dictlike:
        for i in range(n):
            for j in range(i):
                X.assume(pnot(peq(keys[i], keys[j])))
    if cls == "CombinedMultiDict":
        obj = I.call(klass, ([I.call(ds.MultiDict, (pairs[:2],)), I.call(ds.ImmutableMultiDict, (pairs[2:] + pairs[:1],))],))
    elif cls == "ImmutableList":
        obj = I.call(klass, (keys,))
    else:
        obj = I.call(klass, (pairs,))

    def content(o):
        if cls == "ImmutableList":
            return [(x, None) for x in o]
        if cls == "Headers":
            return [(k, v) for k, v in o]
        if dictlike:
            return [(k, v) for k, v in I.call(o.items, ())]
        return md_items(I, o)

    before = content(obj)
    if getattr(I, "native_mode", False):
        import copy
        import pickle

        clones = [pickle.loads(pickle.dumps(obj, proto)) for proto in (2, 4, 5)] if how == "pickle" else [copy.deepcopy(obj)]
    else:
        clones = [persist_clone(I, obj, how)]
    ok = True
    first = content(clones[0])
    for clone in clones:
        after = content(clone)
        ok = pand(ok, type(clone) is klass, len(after) == len(before))
        if len(after) == len(before):
            for (a, b), (c, d) in zip(before, after):
                ok = pand(ok, peq(a, c), b == d)
        eq = I.call(clone.__eq__, (obj,))
        ok = pand(ok, eq is not NotImplemented and bool(eq))
        if cls.startswith("Immutable") and cls != "ImmutableList":
            ok = pand(ok, bool(I.call(hash, (clone,)) == I.call(hash, (obj,))))
    if cls in ("MultiDict", "Headers"):
        # independent of the original
        I.call(clones[0].add, (keys[0], "later"))
        again = content(obj)
        ok = pand(ok, len(again) == len(before))
    return ok, {"before": before, "after": first}


def make_stubs():
    import copy

    return {copy.deepcopy: lambda I, x, memo=None: clone_value(I, x, "deepcopy")}


def body_md_copy(I, X, cls="MultiDict", how="copy", mutate="add"):
    """copies are independent of the original: mutating a copy (also in place, through the
    lists it hands out) leaves the original's content unchanged, and vice versa"""
    from werkzeug import datastructures as ds

    klass = getattr(ds, cls)
    k0 = sym_char(X, "init0")
    md = I.call(klass, ([(k0, "v0"), ("c", "v1"), (k0, "v2")],))
    before = md_items(I, md)
    if how == "copy":
        c2 = I.call(md.copy, ())
    elif how == "ctor":
        c2 = I.call(klass, (md,))
    else:
        import copy as _copy

        c2 = I.call(md.__copy__, ())
    k = sym_char(X, "k")
    if mutate == "add":
        I.call(c2.add, (k, "zz"))
    elif mutate == "setlistdefault-append":
        lst = I.call(c2.setlistdefault, (k, []))
        lst.append("yy")
    elif mutate == "update":
        I.call(c2.update, ([(k, "zz")],))
    elif mutate == "orig-add":
        snap = md_items(I, c2)
        I.call(md.add, (k, "zz"))
        after_c = md_items(I, c2)
        ok = len(snap) == len(after_c)
        if ok:
            for (a1, b1), (a2, b2) in zip(snap, after_c):
                ok = pand(ok, peq(a1, a2), b1 == b2)
        return ok, {"copy": after_c}
    after = md_items(I, md)
    ok = len(after) == len(before)
    if ok:
        for (a1, b1), (a2, b2) in zip(before, after):
            ok = pand(ok, peq(a1, a2), b1 == b2)
    return ok, {"orig": after}


def body_immutable(I, X, cls="ImmutableMultiDict", op="add"):
    from werkzeug import datastructures as ds

    klass = getattr(ds, cls)
    k0 = sym_char(X, "init0")
    if cls == "ImmutableDict":
        obj = klass({"a": "v0", "c": "v1"})  # plain dict storage: concrete initial keys
    else:
        obj = I.call(klass, ([(k0, "v0"), ("c", "v1")],))
    k = sym_char(X, "k")
    before = [(a, b) for a, b in I.call(obj.items, (), {"multi": True})] if "Multi" in cls else [(a, I.call(obj.__getitem__, (a,))) for a in I.call(obj.keys, ())]
    raised = False
    try:
        if op == "add":
            I.call(obj.add, (k, "w"))
        elif op == "setitem":
            I.call(obj.__setitem__, (k, "w"))
        elif op == "delitem":
            I.call(obj.__delitem__, (k,))
        elif op == "pop":
            I.call(obj.pop, (k,))
        elif op == "popitem":
            I.call(obj.popitem, ())
        elif op == "setdefault":
            I.call(obj.setdefault, (k, "w"))
        elif op == "update":
            I.call(obj.update, ({k: "w"},))
        elif op == "clear":
            I.call(obj.clear, ())
        elif op == "setlist":
            I.call(obj.setlist, (k, ["w"]))
        elif op == "poplist":
            I.call(obj.poplist, (k,))
    except TypeError:
        raised = True
    after = [(a, b) for a, b in I.call(obj.items, (), {"multi": True})] if "Multi" in cls else [(a, I.call(obj.__getitem__, (a,))) for a in I.call(obj.keys, ())]
    ok = raised and len(before) == len(after)
    if ok:
        for (a, b), (c, d) in zip(before, after):
            ok = pand(ok, peq(a, c), b == d)
    return ok, {"raised": raised}


def obligations(tier, seed):
    out = []
    quick = tier == "quick"
    for late in (False, True):
        out.append({"name": f"combined[late_add={late}]", "body": "body_combined", "params": {"late_add": late},
                    "opts": {"budget_s": 600, "ctx": {"max_cp": 0x7F}}})
    for n in (1, 2):
        out.append({"name": f"environ_headers[n={n}]", "body": "body_environ_headers", "params": {"n": n},
                    "opts": {"budget_s": 600, "ctx": {"max_cp": 0x7F}}})
    for cls in ("ImmutableMultiDict", "ImmutableDict", "ImmutableTypeConversionDict"):
        for shape in ("swap", "three", "other"):
            out.append({"name": f"immutable_hash[{cls},{shape}]", "body": "body_immutable_hash", "params": {"cls": cls, "shape": shape},
                        "opts": {"budget_s": 600, "ctx": {"max_cp": 0x7F}}})
    for cls in ("ImmutableMultiDict", "MultiDict", "ImmutableDict", "ImmutableTypeConversionDict", "CombinedMultiDict", "Headers"):
        for how in ("pickle", "deepcopy"):
            for n in ((3,) if quick else (2, 3, 4)):
                out.append({"name": f"persist[{cls},{how},n={n}]", "body": "body_persist", "params": {"cls": cls, "how": how, "n": n},
                            "opts": {"budget_s": 600, "ctx": {"max_cp": 0x7F}}, "witness": cls == "ImmutableMultiDict" and how == "pickle" and n == 3})
    other_len = 2
    # thorough: every sequence of length 3 over all mutators, and of length 4 over add / remove /
    # discard / update (the operations that touch both the list and the lookup set)
    seqs = list(itertools.product(HS_OPS, repeat=2 if quick else 3))
    seqs += list(itertools.product(["add", "remove", "discard"], repeat=3)) if quick else \
        list(itertools.product(["add", "remove", "discard", "update2"], repeat=4))
    for ops in seqs:
        out.append({"name": f"headerset[{'+'.join(ops)}]", "body": "body_headerset", "params": {"ops": list(ops)},
                    "opts": {"budget_s": 600, "ctx": {"max_cp": 0x7F}}, "witness": ops == ("add", "remove", "add")})
    CORE_H = ["add", "set", "remove", "pop-index", "setlist", "extend"]
    hseqs = list(itertools.product(H_OPS, repeat=other_len)) + ([] if quick else list(itertools.product(CORE_H, repeat=3)))
    for ops in hseqs:
        out.append({"name": f"headers[{'+'.join(ops)}]", "body": "body_headers", "params": {"ops": list(ops)},
                    "opts": {"budget_s": 600, "ctx": {"max_cp": 0x7F}}, "witness": ops == ("add", "set")})
    # (the deprecated OrderedMultiDict orders pairs globally, not per key: a different abstract
    # model, not named by the property -- outside the claim)
    for cls in ("MultiDict",):
        CORE_MD = ["add", "setitem", "setlist", "pop", "poplist", "update"]
        for ops in list(itertools.product(MD_OPS, repeat=other_len)) + ([] if quick else list(itertools.product(CORE_MD, repeat=3))):
            out.append({"name": f"multidict[{cls},{'+'.join(ops)}]", "body": "body_multidict", "params": {"ops": list(ops), "cls": cls},
                        "opts": {"budget_s": 600, "ctx": {"max_cp": 0x7F}}, "witness": ops == ("add", "pop")})
    for cls in ("MultiDict", "ImmutableMultiDict"):
        for how in ("copy", "ctor", "__copy__"):
            for mutate in ("add", "setlistdefault-append", "update", "orig-add"):
                if cls == "ImmutableMultiDict" and (how != "copy" or mutate == "orig-add"):
                    continue  # its copy() returns a mutable MultiDict; the original cannot be mutated
                out.append({"name": f"md_copy[{cls},{how},{mutate}]", "body": "body_md_copy", "params": {"cls": cls, "how": how, "mutate": mutate},
                            "opts": {"budget_s": 600, "ctx": {"max_cp": 0x7F}}, "witness": how == "copy" and mutate == "add" and cls == "MultiDict"})
    for cls in ("ImmutableMultiDict", "ImmutableDict"):
        for op in ("add", "setitem", "delitem", "pop", "popitem", "setdefault", "update", "clear", "setlist", "poplist"):
            if cls == "ImmutableDict" and op in ("add", "setlist", "poplist"):
                continue
            out.append({"name": f"immutable[{cls},{op}]", "body": "body_immutable", "params": {"cls": cls, "op": op},
                        "opts": {"budget_s": 600, "ctx": {"max_cp": 0x7F}}, "witness": op == "setitem"})
    return out
