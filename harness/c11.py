"""C11 -- conditional and range responses are sound.

Assume/guarantee split:
 (a) http.parse_range_header on solver text returns None or ranges satisfying the
     invariant I (ordered, begin < end, suffix form negative);
 (b) for every single range satisfying I (solver integers) and every resource length,
     Range.range_for_length / to_content_range_header / make_content_range give either
     "unsatisfiable" or a slice inside both the resource and the request, with a
     consistent Content-Range text and Content-Length; Response._process_range_request
     is executed on top with a solver Range header;
 (c) wsgi._RangeWrapper over chunked / seekable bodies yields exactly DATA[start:stop];
 (d) sansio.http.is_resource_modified against an RFC 7232 decision table with solver
     ETag text and enumerated dates.
"""
from __future__ import annotations

from symex.poly import pall_in, pand, pconcat, peq, pimplies, plen, pnone_in, pnot, por, pslice, pstr

PROPERTY = "C11"
BOUNDS = {
    "quick": {"range_text": "<= 5 characters after 'bytes=' over digits - , space", "ints": "solver ints 0..10^5", "etag_text": "<= 2 characters",
              "body": "<= 9 bytes in 1-3 chunks"},
    "thorough": {"range_text": "<= 7 characters", "etag_text": "<= 3 characters", "body": "<= 12 bytes in 1-4 chunks"},
}
STUBS = ["ETag obligations: dates are enumerated concrete datetimes (before/equal/after, sub-second, non-UTC offsets)", "conditional_dates: calendar fields of Last-Modified and If-Modified-Since are solver ints; datetime constructors / comparison / astimezone follow harness/dtmodel.py (contract model, validated natively on every path); email.utils._parsedate_tz is interpreted"]
ASSUMPTIONS = ["body content is the position pattern", "response ETags contain no double quote"]
OUTSIDE = ["send_file (filesystem)", "numeric zone offsets are enumerated (not solver-quantified)", "multi-part/byteranges bodies (werkzeug answers 416)"]


def body_parse_range(I, X, n=4):
    """(a) parser output satisfies the invariant"""
    from werkzeug import http

    tail = X.str("tail", n, minlen=n, maxcp=0x7F)
    X.assume(pall_in(tail, [(0x30, 0x39), 0x2D, 0x2C, 0x20, 0x3D, 0x62]))
    r = I.call(http.parse_range_header, (pconcat("bytes=", tail),))
    if r is None:
        return True, {"ranges": None}
    ok = r.units == "bytes" and len(r.ranges) >= 1
    # soundness against an independent reading of the grammar (RFC 7233 byte-range-set):
    # every returned range is what its item says -- 'A-B', 'A-' or '-N' with plain digits
    from symex.poly import pint

    DIG = [(0x30, 0x39)]
    items = [it.strip() for it in tail.split(",")]
    ok = pand(ok, len(items) == len(r.ranges))
    if len(items) == len(r.ranges):
        for it, (b, e) in zip(items, r.ranges):
            if bool(peq(it[:1], "-")):
                num = it[1:]
                wf = pand(plen(num) > 0, pall_in(num, DIG))
                ok = pand(ok, wf, e is None)
                if bool(wf):
                    # a suffix range is '-N' with N > 0 ('-0' cannot be told from '0-' afterwards)
                    ok = pand(ok, peq(b, -pint(num)), b < 0)
            else:
                a, sep, z = it.partition("-")
                a, z = a.strip(), z.strip()
                wf = pand(plen(sep) == 1, plen(a) > 0, pall_in(a, DIG), pall_in(z, DIG))
                ok = pand(ok, wf)
                if bool(wf):
                    ok = pand(ok, peq(b, pint(a)), (e is None) if plen(z) == 0 else (e is not None and peq(e, pint(z) + 1)))
    last_end = 0
    for b, e in r.ranges:
        if e is None:
            ok = pand(ok, b >= last_end if not bool(b < 0) else True)
            last_end = None
        else:
            ok = pand(ok, b >= 0, b < e, (b >= last_end) if last_end is not None else False)
            last_end = e
    return ok, {"ranges": [list(x) for x in r.ranges]}


def body_range_for_length(I, X, form="first-last"):
    """(b) satisfiable ranges lie inside resource and request; header text consistent"""
    from werkzeug.datastructures import Range

    L = X.int("L", 0, 100000)
    if form == "first-last":
        b = X.int("b", 0, 100000)
        e = X.int("e", 1, 100001)
        X.assume(b < e)
        rng = (b, e)
    elif form == "first-":
        b = X.int("b", 0, 100000)
        rng = (b, None)
    else:
        n = X.int("n", 1, 100000)
        rng = (-n, None)
    r = I.call(Range, ("bytes", [rng]))
    got = I.call(r.range_for_length, (L,))
    hdr = I.call(r.to_content_range_header, (L,))
    cr = I.call(r.make_content_range, (L,))
    if got is None:
        # unsatisfiable: nothing of the request lies inside the resource
        if form == "suffix":
            sat = False  # werkzeug treats an over-long suffix as unsatisfiable; n <= L is satisfiable
            ok = pand(hdr is None, cr is None, pnot(pand(L > 0, rng[0] + L >= 0)))
        else:
            ok = pand(hdr is None, cr is None, pnot(rng[0] < L))
        return ok, {"got": None}
    start, stop = got
    ok = pand(0 <= start, start < stop, stop <= L)
    if form == "first-last":
        ok = pand(ok, peq(start, rng[0]), stop <= rng[1], por(peq(stop, rng[1]), peq(stop, L)))
    elif form == "first-":
        ok = pand(ok, peq(start, rng[0]), peq(stop, L))
    else:
        ok = pand(ok, peq(start, L + rng[0]), peq(stop, L))
    ok = pand(ok, hdr is not None and peq(hdr, pconcat("bytes ", pstr(start), "-", pstr(stop - 1), "/", pstr(L))))
    ok = pand(ok, cr is not None and peq(cr.start, start), cr is not None and peq(cr.stop, stop), cr is not None and peq(cr.length, L))
    return ok, {"got": [start, stop], "hdr": hdr}


DATA = bytes(range(1, 13))


def body_range_wrapper(I, X, nchunks=2, total=6, seekable=False):
    """(c) _RangeWrapper yields exactly DATA[start:start+length]"""
    import io

    from werkzeug.wsgi import FileWrapper, _RangeWrapper

    data = DATA[:total]
    start = X.int("start", 0, total)
    length = X.int("length", 1, total)
    X.assume(start + length <= total)
    X.assume(start < total)
    if seekable:
        bs = X.cint("block", 1, total + 1)
        it = FileWrapper(io.BytesIO(data), bs)
    else:
        cuts = []
        prev = 0
        for k in range(nchunks - 1):
            c = X.cint(f"cut{k}", prev, total)
            cuts.append(c)
            prev = c
        chunks = [data[a:b] for a, b in zip([0] + cuts, cuts + [total])]
        it = iter(chunks)
    w = I.call(_RangeWrapper, (it, start, length))
    out = b""
    steps = 0
    while True:
        steps += 1
        if steps > 3 * total + 4:
            return False, {"error": "does not terminate"}
        try:
            ch = I.call(w.__next__, ())
        except StopIteration:
            break
        out = pconcat(out, ch)
    ok = peq(out, pslice(data, start, start + length))
    return ok, {"out": out}


def body_process_range(I, X, n=3, if_range="none"):
    """(b) on top: Response._process_range_request with a solver Range header"""
    from werkzeug.exceptions import RequestedRangeNotSatisfiable
    from werkzeug.wrappers import Response

    total = 10
    data = DATA[:total]
    tail = X.str("tail", n, minlen=n, maxcp=0x7F)
    X.assume(pall_in(tail, [(0x30, 0x39), 0x2D, 0x2C]))
    resp = Response([data[:3], data[3:6], data[6:]], direct_passthrough=True)
    environ = {"HTTP_RANGE": pconcat("bytes=", tail), "REQUEST_METHOD": "GET"}
    if if_range != "none":
        resp.set_etag("cur")
        environ["HTTP_IF_RANGE"] = '"cur"' if if_range == "match" else '"old"'
    try:
        done = I.call(resp._process_range_request, (environ, total, True))
    except RequestedRangeNotSatisfiable:
        # a failed If-Range means the Range header is ignored altogether: never a 416
        return if_range != "mismatch", {"status": 416}
    if if_range == "mismatch":
        # ... and never a 206: the complete body is sent
        return (not done) and resp.status_code == 200, {"status": "ignored" if not done else resp.status_code}
    if not done:
        return False, {"status": "ignored"}
    status = resp.status_code
    cl = resp.headers.get("Content-Length")
    cr = resp.headers.get("Content-Range")
    out = b""
    it = iter(resp.response)
    for _ in range(total + 3):
        try:
            ch = I.call(it.__next__, ())
        except StopIteration:
            break
        out = pconcat(out, ch)
    k = plen(out)
    # find the slice it claims: Content-Range "bytes a-b/10"
    ok = status == 206
    ok = pand(ok, peq(cl, pstr(k)), k >= 1)
    found = False
    for a in range(total):
        for b in range(a, total):
            if bool(peq(cr, f"bytes {a}-{b}/{total}")):
                ok = pand(ok, peq(out, data[a:b + 1]))
                found = True
                break
        if found:
            break
    ok = pand(ok, found)
    return ok, {"status": status, "cl": cl, "cr": cr, "out": out}


def _dates():
    from datetime import datetime, timedelta, timezone

    base = datetime(2024, 5, 17, 12, 0, 0, tzinfo=timezone.utc)
    return {
        "none": None,
        "before": base - timedelta(seconds=1),
        "equal": base,
        "equal-subsec": base + timedelta(microseconds=400000),
        "after": base + timedelta(seconds=1),
        "equal-offset": base.astimezone(timezone(timedelta(hours=5, minutes=30))),
        "naive-equal": base.replace(tzinfo=None),
    }


def body_conditional(I, X, n=1, header="if-none-match", lm="none", ims="none", shape="one"):
    """(d) is_resource_modified vs the RFC 7232 decision table"""
    from werkzeug.http import http_date, quote_etag
    from werkzeug.sansio.http import is_resource_modified

    dates = _dates()
    etag = X.str("etag", n, minlen=n, maxcp=0x7F)
    other = X.str("other", n, minlen=n, maxcp=0x7F)
    for t in (etag, other):
        X.assume(pnone_in(t, [34, 10, 13]))
        X.assume(pall_in(t, [(0x21, 0x7E)]))
    resp_weak = X.flag("resp_weak")
    has_etag = X.flag("has_etag")
    resp_etag = None
    if has_etag:
        resp_etag = pconcat('W/"' if resp_weak else '"', etag, '"')
    # the client's list
    hdr_weak = X.flag("hdr_weak")
    if shape == "one":
        listed = [(other, hdr_weak)]
    elif shape in ("two", "two-spaced"):
        listed = [("zz", False), (other, hdr_weak)]
    elif shape == "star":
        listed = "*"
    else:
        listed = None
    if listed == "*":
        text = "*"
    elif listed is None:
        text = None
    else:
        text = ""
        for i, (t, w) in enumerate(listed):
            # (RFC 7230 list syntax allows optional whitespace on both sides of the comma)
            text = pconcat(text, ((" ,\t" if shape == "two-spaced" else ", ") if i else ""), 'W/"' if w else '"', t, '"')
    kw = {"etag": resp_etag, "last_modified": dates[lm]}
    if dates[ims] is not None:
        kw["http_if_modified_since"] = http_date(dates[ims])
    if header == "if-none-match":
        kw["http_if_none_match"] = text
    else:
        kw["http_if_match"] = text
    modified = I.call(is_resource_modified, (), kw)
    # reference
    def listed_has(weak_cmp):
        if listed == "*":
            return True
        if listed is None:
            return False
        r = False
        for t, w in listed:
            if weak_cmp:
                r = por(r, peq(t, etag))
            else:
                r = por(r, pand(peq(t, etag), not w, not resp_weak))
        return r

    date_unmod = False
    if dates[lm] is not None and dates[ims] is not None:
        a = dates[lm].replace(microsecond=0)
        from datetime import timezone

        if a.tzinfo is None:
            a = a.replace(tzinfo=timezone.utc)
        b = dates[ims].replace(microsecond=0)
        if b.tzinfo is None:
            b = b.replace(tzinfo=timezone.utc)
        date_unmod = a <= b
    if header == "if-none-match":
        if has_etag and text is not None:
            exp_unmod = listed_has(True)      # takes precedence over If-Modified-Since
        else:
            exp_unmod = date_unmod
        ok = peq(pnot(modified) if not isinstance(modified, bool) else (not modified), exp_unmod)
    else:
        unmod = pnot(modified) if not isinstance(modified, bool) else (not modified)
        if has_etag and text is not None:
            # "unmodified" means: precondition failed -> 412.  Sound: only when If-Match
            # (strong comparison) does not admit the current ETag; and it must fail when
            # the tag is not listed at all.
            ok = pand(pimplies(unmod, pnot(listed_has(False))), pimplies(pnot(listed_has(True)), unmod))
        else:
            ok = peq(unmod, date_unmod)
    return ok, {"modified": modified}


MONTHS = ["Jan", "Feb", "Mar", "Apr", "May", "Jun", "Jul", "Aug", "Sep", "Oct", "Nov", "Dec"]


def p2(n):
    """two-digit rendering of a small non-negative int (plain or solver)"""
    return pstr(n).zfill(2)


def body_conditional_dates(I, X, lm_month=3, ims_month=3, zone="GMT", lm_kind="aware", via="ims"):
    """If-Modified-Since against Last-Modified with both instants solver-quantified: the year,
    day, hour, minute and second of each side (and the header's numeric zone offset) are solver
    integers; the verdict must be 'unmodified' exactly when Last-Modified is not later than the
    header's instant, compared as instants (offsets applied), at second resolution"""
    import datetime as dtm

    from harness.dtmodel import SymDatetime, utc_seconds, valid_day
    from werkzeug.sansio.http import is_resource_modified

    def fields(tag, month):
        y = X.int(tag + "y", 1000, 9999)
        d = X.int(tag + "d", 1, 31)
        valid_day(X, y, month, d)
        return (y, month, d, X.int(tag + "h", 0, 23), X.int(tag + "mi", 0, 59), X.int(tag + "s", 0, 59))

    a = fields("a", lm_month)     # Last-Modified (a datetime object, as applications pass it)
    if lm_kind.startswith("off"):
        # converting the very last / first day of the calendar to UTC overflows datetime itself
        X.assume(a[0] <= 9998)
    b = fields("b", ims_month)    # If-Modified-Since (header text)
    # the header's zone is enumerated ('GMT' or a numeric offset such as '+0130'); all calendar
    # fields of both sides are solver integers
    ztext = zone
    off = 0
    if zone != "GMT":
        off = (int(zone[1:3]) * 3600 + int(zone[3:5]) * 60) * (1 if zone[0] == "+" else -1)
        # ('-0000' means "no zone information": naive, taken as UTC -- the same instant as +0000)
    hdr = pconcat("Mon, ", p2(b[2]), " ", MONTHS[ims_month - 1], " ", pstr(b[0]), " ", p2(b[3]), ":", p2(b[4]), ":", p2(b[5]), " ", ztext)
    lm_off = 0
    if lm_kind == "aware":
        tz = dtm.timezone.utc
    elif lm_kind == "naive":
        tz = None
    else:
        # a Last-Modified value in another fixed offset, e.g. 'off+0530'
        lm_off = (int(lm_kind[4:6]) * 3600 + int(lm_kind[6:8]) * 60) * (1 if lm_kind[3] == "+" else -1)
        tz = dtm.timezone(dtm.timedelta(seconds=lm_off))
    if X.symbolic:
        lm = SymDatetime(a, tz)
    else:
        lm = dtm.datetime(*a, tzinfo=tz)
    FAR = "Fri, 31 Dec 9999 23:59:59 GMT"   # a decoy that would make every resource 'unmodified'
    if via == "ims":
        kw = {"http_if_modified_since": hdr}
    elif via == "if_range":
        # a Range request: the If-Range date decides, If-Modified-Since is not consulted
        kw = {"http_range": "bytes=0-1", "http_if_range": hdr, "http_if_modified_since": FAR, "ignore_if_range": False}
    else:
        # no Range header: If-Range must be ignored, If-Modified-Since decides
        kw = {"http_range": None, "http_if_range": FAR, "http_if_modified_since": hdr, "ignore_if_range": False}
    kw["last_modified"] = lm
    modified = I.call(is_resource_modified, (), kw)
    unmod = utc_seconds(a, lm_off) <= utc_seconds(b, off)
    got_unmod = pnot(modified) if not isinstance(modified, bool) else (not modified)
    return peq(got_unmod, unmod), {"header": hdr, "modified": bool(modified)}


def obligations(tier, seed):
    out = []
    quick = tier == "quick"
    ctx = {"max_cp": 0x7F, "bv_ints": True, "max_digits": 7}

    def add(name, body, params, witness=False, budget=900):
        out.append({"name": name, "body": body, "params": params, "opts": {"budget_s": budget, "ctx": ctx}, "witness": witness})

    for n in (range(0, 6) if quick else range(0, 8)):
        add(f"parse_range[n={n}]", "body_parse_range", {"n": n}, n == 3)
    for form in ("first-last", "first-", "suffix"):
        add(f"range_for_length[{form}]", "body_range_for_length", {"form": form}, True)
    for total in ([4, 7] if quick else [4, 7, 10]):
        for nchunks in (1, 2, 3) if quick else (1, 2, 3, 4):
            add(f"range_wrapper[chunks={nchunks},total={total}]", "body_range_wrapper", {"nchunks": nchunks, "total": total, "seekable": False}, nchunks == 2 and total == 4)
        add(f"range_wrapper[seekable,total={total}]", "body_range_wrapper", {"nchunks": 1, "total": total, "seekable": True})
    for n in ([1, 2, 3] if quick else [1, 2, 3, 4, 5]):
        add(f"process_range[n={n}]", "body_process_range", {"n": n}, n == 3, 1500)
    for ir in ("match", "mismatch"):
        for n in ([0, 1, 2, 3] if quick else [0, 1, 2, 3, 4]):
            add(f"process_range[n={n},if_range={ir}]", "body_process_range", {"n": n, "if_range": ir}, False, 1500)
    combos = [(3, 3, "GMT", "aware"), (2, 3, "+0130", "aware"), (12, 1, "-0800", "naive"), (1, 12, "+2359", "aware"), (3, 2, "-0000", "naive"),
              (3, 3, "GMT", "off+0530"), (1, 12, "-0800", "off-1100")]
    if not quick:
        combos += [(m, m2, z, k) for m, m2 in ((2, 2), (6, 7), (12, 1), (1, 12), (3, 2)) for z in ("GMT", "+0000", "+0130", "-0800", "-2359", "+1400")
                   for k in ("aware", "naive", "off+0100", "off-0930")]
    for lm_m, ims_m, zone, kind in combos:
        add(f"conditional_dates[lm_month={lm_m},ims_month={ims_m},zone={zone},{kind}]", "body_conditional_dates",
            {"lm_month": lm_m, "ims_month": ims_m, "zone": zone, "lm_kind": kind}, False, 1500)
    # the same comparison reached through If-Range (a Range request) and with If-Range ignored (no Range)
    for via in ("if_range", "if_range-without-range"):
        for lm_m, ims_m, zone, kind in (combos[:3] if quick else combos[:7] + combos[7::6]):
            add(f"conditional_dates[via={via},lm_month={lm_m},date_month={ims_m},zone={zone},{kind}]", "body_conditional_dates",
                {"lm_month": lm_m, "ims_month": ims_m, "zone": zone, "lm_kind": kind, "via": via}, False, 1500)
    for header in ("if-none-match", "if-match"):
        for shape in ("one", "two", "two-spaced", "star", "absent"):
            for lm, ims in [("none", "none"), ("equal", "equal"), ("equal-subsec", "equal"), ("after", "equal"), ("before", "equal"),
                            ("equal-offset", "equal"), ("naive-equal", "equal"), ("equal", "none")]:
                for n in ([1] if quick else [1, 2]):
                    add(f"conditional[{header},{shape},lm={lm},ims={ims},n={n}]", "body_conditional",
                        {"n": n, "header": header, "lm": lm, "ims": ims, "shape": shape}, shape == "one" and lm == "none")
    return out


def make_stubs():
    from harness.c07 import make_stubs as m

    return m()
