"""C14 -- untrusted paths and filenames cannot escape the trusted directory.

security.safe_join is executed symbolically together with the stdlib helpers it calls
(posixpath.join / isabs, interpreted from their source; posixpath.normpath is C in
CPython 3.12 and is replaced by the pure-Python twin that ships in the same stdlib
file, extracted by AST and differentially tested against the C function);
utils.secure_filename is executed on ASCII input.
"""
from __future__ import annotations

import ast
import os
import posixpath
import unicodedata

from symex.poly import pall_in, pand, pconcat, pcontains, peq, pimplies, plen, pnot, por, pstartswith

PROPERTY = "C14"
BOUNDS = {
    "quick": {"components": "1 x <=6 chars, 2 x <=4 (sum<=6), 3 x <=2 (sum<=5) chars, every 8-bit code point", "bases": ["/r", "r", "", "/", "/r/s", "."]},
    "thorough": {"components": "1 x <=8, 2 x <=5, 3 x <=3 chars, every 8-bit code point", "bases": ["/r", "r", "", "/", "/r/s", ".", "r/..", "/r/"]},
}
STUBS = [
    "fs_access: os.path.isfile is replaced in the symbolic AND the native run by a recorder that answers False (no real file is touched)",
    "posixpath.normpath (C accelerator posix._path_normpath) -> the pure-Python normpath from the same stdlib file, extracted by AST; differential test against the C function at start-up and native per-path replay",
    "os.fspath -> identity on str",
    "unicodedata.normalize('NFKD', s) -> identity (ASCII input only)",
]
ASSUMPTIONS = ["POSIX path semantics (os.sep == '/', no altsep)", "secure_filename input is ASCII"]
OUTSIDE = ["what send_from_directory / SharedDataMiddleware do after a file was found (send_file, openers)", "Windows separators", "non-ASCII filenames (unicodedata, C)", "longer components"]


def _py_normpath_node():
    src = open(posixpath.__file__.replace(".pyc", ".py")).read()
    tree = ast.parse(src)
    for node in ast.walk(tree):
        if isinstance(node, ast.Try):
            for h in node.handlers:
                for st in h.body:
                    if isinstance(st, ast.FunctionDef) and st.name == "normpath":
                        return st
    raise RuntimeError("pure-Python normpath not found in posixpath.py")


_NODE = None
_PY_NORMPATH = None


def py_normpath_native():
    """the twin compiled as an ordinary function (for the differential test)"""
    global _PY_NORMPATH, _NODE
    if _PY_NORMPATH is None:
        _NODE = _py_normpath_node()
        mod = ast.Module(body=[_NODE], type_ignores=[])
        ns = dict(vars(posixpath))
        exec(compile(mod, "<posixpath-twin>", "exec"), ns)
        _PY_NORMPATH = ns["normpath"]
    return _PY_NORMPATH


def differential_test():
    import itertools

    f = py_normpath_native()
    atoms = ["", ".", "..", "/", "//", "a", "\\", "\0", "a.", ".a", "~", "///"]
    n = 0
    for k in range(1, 5):
        for combo in itertools.product(atoms, repeat=k):
            s = "".join(combo)
            if f(s) != posixpath.normpath(s):
                raise AssertionError(f"normpath twin differs on {s!r}: {f(s)!r} vs {posixpath.normpath(s)!r}")
            n += 1
    return n


def make_stubs():
    from symex.interp import Closure, Env

    py_normpath_native()
    node = _NODE

    def normpath_stub(I, path):
        return Closure(node, Env(dict(vars(posixpath))), I, "normpath")(path)

    def fspath_stub(I, p):
        return p

    def normalize_stub(I, form, s):
        return s

    return {posixpath.normpath: normpath_stub, os.fspath: fspath_stub, unicodedata.normalize: normalize_stub}


def norm(I, X, p):
    if X.symbolic:
        return make_stubs()[posixpath.normpath](I, p)
    return posixpath.normpath(p)


def inside(nb, nr):
    if nb == "/":
        return pstartswith(nr, "/")
    if nb == ".":
        return pnot(por(peq(nr, ".."), pstartswith(nr, "../"), pstartswith(nr, "/")))
    return por(peq(nr, nb), pstartswith(nr, nb + "/"))


def body_safe_join(I, X, base="/r", lens=(3,)):
    from werkzeug.security import safe_join

    comps = [X.str(f"c{i}", n, minlen=n, maxcp=0xFF) for i, n in enumerate(lens)]
    res = I.call(safe_join, (base, *comps))
    if res is None:
        return True, {"result": None}
    nb = posixpath.normpath(base or ".")
    nr = norm(I, X, res)
    ok = inside(nb, nr)
    return ok, {"result": res, "norm": nr}


def body_fs_access(I, X, via="shared_data", n=3, prefix="/"):
    """end to end: whatever untrusted path reaches SharedDataMiddleware or
    send_from_directory, every path they ask the filesystem about lies inside the exported /
    base directory.  os.path.isfile is replaced (in both the symbolic and the native run) by a
    recorder that answers False, so no real file is touched"""
    from werkzeug.exceptions import NotFound

    seen = []

    def rec(p):
        seen.append(p)
        return False

    tail = X.str("tail", n, minlen=n, maxcp=0x7F)
    saved = os.path.isfile
    os.path.isfile = rec
    try:
        if via.startswith("package"):
            # a package export: the resource reader of a stand-in package records what it is asked
            import importlib.machinery
            import sys
            import types

            from werkzeug.middleware.shared_data import SharedDataMiddleware

            class Reader:
                def open_resource(self, path):
                    seen.append(("pkg", path))
                    raise FileNotFoundError(path)

            class Loader:
                def get_resource_reader(self, name):
                    return Reader()

            mod = types.ModuleType("verif_fake_pkg")
            mod.__spec__ = importlib.machinery.ModuleSpec("verif_fake_pkg", Loader(), origin="/srv/pkg/__init__.py")
            sys.modules["verif_fake_pkg"] = mod
            try:
                pkg_path = "" if via == "package-empty" else "static"
                mw = SharedDataMiddleware(lambda e, s: [b"app"], {"/static": ("verif_fake_pkg", pkg_path)})
                environ = {"REQUEST_METHOD": "GET", "PATH_INFO": pconcat("/static", prefix, tail), "wsgi.url_scheme": "http", "SERVER_NAME": "s", "SERVER_PORT": "80"}
                I.call(mw.__call__, (environ, lambda *a, **k: None))
            finally:
                sys.modules.pop("verif_fake_pkg", None)
            ok = True
            base = "." if via == "package-empty" else "static"
            for kind, p in seen:
                ok = pand(ok, inside(base, norm(I, X, p)))
            return ok, {"asked": [p for k, p in seen]}
        if via == "shared_data":
            from werkzeug.middleware.shared_data import SharedDataMiddleware

            mw = SharedDataMiddleware(lambda e, s: [b"app"], {"/static": "/srv/root"})
            environ = {"REQUEST_METHOD": "GET", "PATH_INFO": pconcat("/static", prefix, tail), "wsgi.url_scheme": "http", "SERVER_NAME": "s", "SERVER_PORT": "80"}
            I.call(mw.__call__, (environ, lambda *a, **k: None))
        else:
            from werkzeug.utils import send_from_directory

            try:
                I.call(send_from_directory, ("/srv/root", pconcat(prefix.lstrip("/"), tail), {"REQUEST_METHOD": "GET"}))
            except NotFound:
                pass
    finally:
        os.path.isfile = saved
    ok = True
    for p in seen:
        ok = pand(ok, inside("/srv/root", norm(I, X, p)))
    return ok, {"asked": list(seen)}


def body_secure_filename(I, X, n=3):
    from werkzeug.utils import secure_filename

    name = X.str("name", n, minlen=n, maxcp=0x7F)
    out = I.call(secure_filename, (name,))
    again = I.call(secure_filename, (out,))
    ok = pand(
        pall_in(out, [(0x30, 0x39), (0x41, 0x5A), (0x61, 0x7A), 0x5F, 0x2E, 0x2D]),  # ASCII, no separator / whitespace
        pnot(pstartswith(out, ".")),
        peq(again, out),
    )
    return ok, {"out": out, "again": again}


def obligations(tier, seed):
    import itertools

    out = []
    quick = tier == "quick"
    bases = ["/r", "r", "", "/", "/r/s", "."] + ([] if quick else ["r/..", "/r/"])
    if quick:
        shapes = [(n,) for n in range(0, 7)] + [(a, b) for a in range(0, 5) for b in range(0, 5) if 2 <= a + b <= 6] + \
                 [t for t in itertools.product(range(0, 3), repeat=3) if 3 <= sum(t) <= 5]
    else:
        shapes = [(n,) for n in range(0, 9)] + [(a, b) for a in range(0, 6) for b in range(0, 6) if a + b >= 2] + \
                 [t for t in itertools.product(range(0, 4), repeat=3) if sum(t) >= 3]
    for base in bases:
        for lens in shapes:
            out.append({"name": f"safe_join[base={base!r},lens={lens}]", "body": "body_safe_join",
                        "params": {"base": base, "lens": list(lens)},
                        "opts": {"budget_s": 900, "ctx": {"max_cp": 0xFF}},
                        "witness": lens == (3,) and base == "/r"})
    for via in ("shared_data", "send_from_directory", "package", "package-empty"):
        for prefix in ("/", "//", "/a/"):
            for n in (range(0, 5) if quick else range(0, 7)):
                out.append({"name": f"fs_access[{via},prefix={prefix!r},n={n}]", "body": "body_fs_access", "params": {"via": via, "n": n, "prefix": prefix},
                            "opts": {"budget_s": 900, "ctx": {"max_cp": 0x7F}}})
    for n in (range(0, 5) if quick else range(0, 6)):
        out.append({"name": f"secure_filename[n={n}]", "body": "body_secure_filename", "params": {"n": n},
                    "opts": {"budget_s": 900, "ctx": {"max_cp": 0x7F}}, "witness": n == 3})
    return out


def extra_checks(tier, seed, active_known):
    import time

    t0 = time.time()
    try:
        n = differential_test()
        return [{"name": "normpath-twin-differential", "complete": True, "paths": 0, "validated": n,
                 "summary": {"name": "normpath twin vs C posixpath.normpath", "cases": n, "wall_s": round(time.time() - t0, 2)},
                 "samples": [{"stub_differential": "posixpath.normpath twin", "cases_compared": n}]}]
    except AssertionError as e:
        return [{"name": "normpath-twin-differential", "complete": False,
                 "engine_errors": [{"what": "stub differential failed", "detail": str(e)}]}]
