"""C13 -- cookie values round-trip and cannot inject attributes.

http.dump_cookie (quote-free fast path, escaping regex + table, attribute assembly) and
sansio.http.parse_cookie / http.parse_cookie (pair splitting, un-escaping) are executed
symbolically on a value of n solver code points.
"""
from __future__ import annotations

from symex.poly import pall_in, pand, pconcat, pcontains, peq, pimplies, plen, pnot, por, pstartswith, pendswith, pstr

PROPERTY = "C13"
BOUNDS = {
    "quick": {"value_code_points": "<= 3, each U+0000..U+07FF (1- and 2-byte UTF-8); plus 2-3 code points <= U+00FF inside the skeletons \\{} {}\\ \"{}\" {};", "max_age": "any int rendered with <= 6 digits"},
    "thorough": {"value_code_points": "<= 4 over U+0000..U+07FF; <= 2 over all of Unicode incl. surrogates", "max_age": "any int with <= 6 digits"},
}
STUBS = ["datetime.now not reached (sync_expires=False); an explicit expires instant uses the contract model of datetime (harness/dtmodel.py), email.utils.format_datetime is interpreted", "urllib.parse.quote runs natively on the concrete path"]
ASSUMPTIONS = ["key is the concrete token 'k' (jar_record: nine tokens incl. every attribute name)", "a space inside a quoted value is accepted raw (pinned by the suite's test_dump_cookie)"]
OUTSIDE = ["IDNA domains", "expires derived from max_age and the clock (sync_expires)", "the test client jar beyond the record it builds from a Set-Cookie header and its request matching (storage, expiry)", "values longer than the bound"]

# RFC 6265 cookie-octet
COOKIE_OCTET = [0x21, (0x23, 0x2B), (0x2D, 0x3A), (0x3C, 0x5B), (0x5D, 0x7E)]


def escaped_ok(body):
    """body of a quoted cookie value: only printable ASCII without the separators,
    or backslash escapes (\\ooo, \\", \\\\) -- checked by a left-to-right scan"""
    n = plen(body)
    i = 0
    ok = True
    while i < n:
        ch = body[i:i + 1]
        if peq(ch, "\\"):
            nxt = body[i + 1:i + 2]
            if plen(nxt) == 1 and por(peq(nxt, '"'), peq(nxt, "\\")):
                i += 2
                continue
            oct3 = body[i + 1:i + 4]
            if plen(oct3) == 3 and pand(pall_in(oct3[0:1], [(0x30, 0x33)]), pall_in(oct3[1:], [(0x30, 0x37)])):
                i += 4
                continue
            return False
        if not pall_in(ch, [0x20] + COOKIE_OCTET):
            return False
        i += 1
    return ok


def body_roundtrip(I, X, n=2, maxcp=0x7FF, environ_level=False, skeleton=None):
    from werkzeug import http
    from werkzeug.sansio import http as shttp

    value = X.str("value", n, minlen=n, maxcp=maxcp)
    if skeleton is not None:
        # the solver characters sit inside a fixed text that needs escaping (reaches
        # multi-character escape sequences with fewer free characters)
        pre, post = skeleton.split("{}")
        value = pconcat(pre, value, post)
    X.known("C13-raw-control-1a-1f", pnot(pall_in(value, [(0, 0x19), (0x20, 0x10FFFF)])))
    try:
        rv = I.call(http.dump_cookie, ("k", value), {"path": None})
    except UnicodeEncodeError:
        # lone surrogates cannot be encoded as UTF-8: refusing is fine, emitting is not
        return pcontains_surrogate(value), {"raised": "UnicodeEncodeError"}
    ok = pstartswith(rv, "k=")
    emitted = rv[2:]
    # pure ASCII, no way to end the pair or smuggle attributes
    if pand(plen(emitted) >= 2, pstartswith(emitted, '"'), pendswith(emitted, '"')) and not pall_in(emitted, COOKIE_OCTET):
        ok = pand(ok, escaped_ok(emitted[1:-1]))
    else:
        ok = pand(ok, pall_in(emitted, COOKIE_OCTET))
    # parsed back as a request cookie
    if environ_level:
        back = I.call(http.parse_cookie, (rv,))
    else:
        back = I.call(shttp.parse_cookie, (rv,))
    items = list(back.items(multi=True))
    ok = pand(ok, len(items) == 1 and items[0][0] == "k" and peq(items[0][1], value))
    return ok, {"header": rv, "parsed": items}


def pcontains_surrogate(value):
    return pnot(pall_in(value, [(0, 0xD7FF), (0xE000, 0x10FFFF)]))


SAMESITE = [None, "strict", "LAX", "nOnE", "Strict", "bogus", ""]
PATHS = [None, "/", "/a b", "/x;y", "/\u00e9"]


def body_attributes(I, X, n=1, samesite_i=0, path_i=0, expires_month=0, age_td=False):
    """attribute assembly: exactly the requested attributes, canonical, fixed order"""
    from werkzeug import http
    pass

    value = X.str("value", n, minlen=n, maxcp=0xFF)
    X.known("C13-raw-control-1a-1f", pnot(pall_in(value, [(0, 0x19), (0x20, 0x10FFFF)])))
    samesite = SAMESITE[samesite_i]
    path = PATHS[path_i]
    if expires_month:
        # the date obligations keep the other attributes fixed (they are covered without a date)
        has_age, max_age, secure, partitioned, domain = False, None, False, False, None
        httponly = X.flag("httponly")
    else:
        has_age = X.flag("has_age")
        max_age = X.int("max_age", -99999, 999999) if has_age else None
        secure = X.flag("secure")
        httponly = X.flag("httponly")
        partitioned = X.flag("partitioned")
        domain = X.choice("domain", [None, "example.com", ".example.com:8080", "localhost"])
    expires = None
    exp_tail = None
    if expires_month:
        # an explicit expiry instant: year, day and time are solver integers
        import datetime as dtm

        from harness.dtmodel import SymDatetime, valid_day

        y = X.int("ey", 1000, 9999)
        d = X.int("ed", 1, 31)
        valid_day(X, y, expires_month, d)
        f = (y, expires_month, d, X.int("eh", 0, 23), X.int("emi", 0, 59), X.int("es", 0, 59))
        expires = SymDatetime(f, dtm.timezone.utc) if X.symbolic else dtm.datetime(*f, tzinfo=dtm.timezone.utc)
        mon = ["Jan", "Feb", "Mar", "Apr", "May", "Jun", "Jul", "Aug", "Sep", "Oct", "Nov", "Dec"][expires_month - 1]
        exp_tail = pconcat(pstr(f[2]).zfill(2), " ", mon, " ", pstr(y), " ", pstr(f[3]).zfill(2), ":", pstr(f[4]).zfill(2), ":", pstr(f[5]).zfill(2), " GMT")
    max_age_arg = max_age
    if age_td:
        # max_age given as a timedelta (days / seconds / negative): Max-Age is its whole seconds
        import datetime as dtm

        days, secs = X.choice("td", [(30, 0), (1, 1), (0, 7200), (-1, 86399), (0, 0), (14, 43200)])
        max_age_arg = dtm.timedelta(days=days, seconds=secs)
        max_age = days * 86400 + secs
    try:
        rv = I.call(http.dump_cookie, ("k", value), {
            "max_age": max_age_arg, "path": path, "domain": domain, "secure": secure, "httponly": httponly,
            "samesite": samesite, "partitioned": partitioned, "sync_expires": False, "expires": expires})
    except ValueError:
        return samesite in ("bogus", ""), {"raised": "ValueError"}
    parts = rv.split("; ")
    exp = []
    if domain:
        exp.append("Domain=" + {"example.com": "example.com", ".example.com:8080": "example.com", "localhost": "localhost"}[domain])
    if exp_tail is not None:
        exp.append(("Expires=", exp_tail))
    if max_age is not None:
        exp.append(pconcat("Max-Age=", pstr(max_age)))
    if secure or partitioned:
        exp.append("Secure")
    if httponly:
        exp.append("HttpOnly")
    if path is not None:
        exp.append("Path=" + {"/": "/", "/a b": "/a%20b", "/x;y": "/x%3By", "/\u00e9": "/%C3%A9"}[path])
    if samesite is not None:
        exp.append("SameSite=" + samesite.title())
    if partitioned:
        exp.append("Partitioned")
    ok = samesite not in ("bogus", "")
    ok = pand(ok, len(parts) == 1 + len(exp))
    if len(parts) == 1 + len(exp):
        for a, b in zip(parts[1:], exp):
            if isinstance(b, tuple):
                # 'Expires=Wdy, DD Mon YYYY HH:MM:SS GMT' (the day name is not compared)
                ok = pand(ok, pstartswith(a, b[0]), plen(a) == len(b[0]) + 29, peq(a[len(b[0]) + 5:], b[1]), peq(a[len(b[0]) + 3:len(b[0]) + 5], ", "))
            else:
                ok = pand(ok, peq(a, b))
        ok = pand(ok, pstartswith(parts[0], "k="))
    return ok, {"header": rv}


def obligations(tier, seed):
    out = []
    quick = tier == "quick"
    for env in (False, True):
        for n in ([0, 1, 2, 3] if quick else [0, 1, 2, 3, 4]):
            out.append({"name": f"roundtrip[n={n},maxcp=0x7ff,environ={env}]", "body": "body_roundtrip",
                        "params": {"n": n, "maxcp": 0x7FF, "environ_level": env},
                        "opts": {"budget_s": 1500, "ctx": {"max_cp": 0x7FF}}, "witness": n == 2})
        for n in ([1] if quick else [1, 2]):
            out.append({"name": f"roundtrip[n={n},maxcp=0x10ffff,environ={env}]", "body": "body_roundtrip",
                        "params": {"n": n, "maxcp": 0x10FFFF, "environ_level": env},
                        "opts": {"budget_s": 1500, "ctx": {"max_cp": 0x10FFFF}}})
        for sk, n in ([("\\{}", 3), ("{}\\", 2), ('"{}"', 2), ("{};", 2)] if quick else [("\\{}", 4), ("{}\\", 3), ('"{}"', 3), ("{};", 3), ("\\{}\\", 3)]):
            out.append({"name": f"roundtrip-skel[{sk!r},n={n},environ={env}]", "body": "body_roundtrip",
                        "params": {"n": n, "maxcp": 0xFF, "environ_level": env, "skeleton": sk},
                        "opts": {"budget_s": 1500, "ctx": {"max_cp": 0xFF}}})
    for n in ([0] if quick else [0, 1]):
        for si in range(len(SAMESITE)):
            for pi in range(len(PATHS)):
                if quick and (si + pi) % 2:
                    continue
                out.append({"name": f"attributes[n={n},samesite={SAMESITE[si]!r},path={PATHS[pi]!r}]", "body": "body_attributes",
                            "params": {"n": n, "samesite_i": si, "path_i": pi},
                            "opts": {"budget_s": 1500}, "witness": si == 2 and pi == 0})
    for oo in (True, False):
        for np_, nr in ([(1, 1), (1, 3), (2, 2), (2, 3)] if quick else [(a, b) for a in range(0, 4) for b in range(0, 5)]):
            out.append({"name": f"jar_match[cookie_path={np_},request_path={nr},origin_only={oo}]", "body": "body_jar_match",
                        "params": {"np_": np_, "nr": nr, "origin_only": oo}, "opts": {"budget_s": 600, "ctx": {"max_cp": 0x7F}}})
    out.append({"name": "attributes[max_age=timedelta]", "body": "body_attributes", "params": {"n": 0, "samesite_i": 1, "path_i": 1, "age_td": True},
                "opts": {"budget_s": 1500}})
    for ki in range(len(JAR_KEYS)):
        for n in (((1,) if ki < 5 else (0,)) if quick else (0, 1, 2)):
            out.append({"name": f"jar_record[key={JAR_KEYS[ki]},n={n}]", "body": "body_jar_record", "params": {"key_i": ki, "n": n, "full": not quick and n < 2},
                        "opts": {"budget_s": 1500, "ctx": {"max_cp": 0xFF}}, "witness": ki == 1 and n == 1})
    for month in ([2, 10] if quick else [1, 2, 7, 10, 12]):
        out.append({"name": f"attributes[expires,month={month}]", "body": "body_attributes", "params": {"n": 0, "samesite_i": 1, "path_i": 1, "expires_month": month},
                    "opts": {"budget_s": 1500, "ctx": {"bv_ints": True, "max_digits": 6}}})
    return out


def body_jar_match(I, X, np_=2, nr=3, origin_only=True):
    """the test client's jar sends a cookie back exactly to the requests RFC 6265 path-matches:
    the request path equals the cookie path, or continues it at a '/' boundary; and only to the
    cookie's own host (or its subdomains when a Domain was given)"""
    from werkzeug.test import Cookie

    cp = X.str("cpath", np_, minlen=np_, maxcp=0x7E)
    rp = X.str("rpath", nr, minlen=nr, maxcp=0x7E)
    for t in (cp, rp):
        X.assume(pall_in(t, [0x2F, 0x61, 0x62, 0x2E]))
    cpath, rpath = pconcat("/", cp), pconcat("/", rp)
    host = X.choice("host", ["h.example", "sub.h.example", "xh.example", "example"])
    ck = Cookie(key="k", value="v", decoded_key="k", decoded_value="v", expires=None, max_age=None, domain="h.example", origin_only=origin_only,
                path=cpath, secure=False, http_only=False, same_site=None)
    got = bool(I.call(ck._matches_request, (host, rpath)))
    if bool(pendswith(cpath, "/")):
        path_ok = pstartswith(rpath, cpath)
    else:
        path_ok = por(peq(rpath, cpath), pstartswith(rpath, pconcat(cpath, "/")))
    host_ok = host == "h.example" or (not origin_only and host == "sub.h.example")
    exp = bool(pand(path_ok, host_ok))
    return got == exp, {"got": got, "exp": exp}


JAR_KEYS = ["k", "secure", "HttpOnly", "samesite", "path", "max-age", "domain", "expires", "partitioned"]


JAR_PROFILES = [(None, None, "/", None), ("Strict", 0, "/a", "example.com"), ("lax", 3600, None, None), (None, 3600, "/a", None),
                ("Strict", None, None, "example.com"), ("lax", 0, "/", "example.com")]


def body_jar_record(I, X, key_i=0, n=1, full=False):
    """through the test client's jar: the record Cookie._from_response_header builds from a
    Set-Cookie header written by dump_cookie carries the value and exactly the requested
    attributes -- also when the cookie is named like an attribute or its value looks like
    one -- and the pair it sends back parses to the value"""
    from werkzeug import http
    from werkzeug.test import Cookie

    key = JAR_KEYS[key_i]
    value = X.str("value", n, minlen=n, maxcp=0xFF)
    X.known("C13-raw-control-1a-1f", pnot(pall_in(value, [(0, 0x19), (0x20, 0x10FFFF)])))
    secure, httponly = X.flag("secure"), X.flag("httponly")
    if full:
        samesite = X.choice("samesite", [None, "Strict", "lax"])
        max_age = X.choice("max_age", [None, 0, 3600])
        path = X.choice("path", ["/", "/a", None])
        domain = X.choice("domain", [None, "example.com"])
    else:
        samesite, max_age, path, domain = X.choice("profile", JAR_PROFILES)
    header = I.call(http.dump_cookie, (key, value), {"max_age": max_age, "path": path, "domain": domain, "secure": secure, "httponly": httponly, "samesite": samesite, "sync_expires": False})
    ck = I.call(Cookie._from_response_header, ("localhost", "/app/index", header))
    ok = pand(peq(ck.key, key), peq(ck.decoded_key, key), peq(ck.decoded_value, value),
              ck.secure == secure, ck.http_only == httponly,
              (ck.same_site is None) if samesite is None else (ck.same_site is not None and peq(ck.same_site, samesite.title())),
              (ck.max_age is None) if max_age is None else (ck.max_age is not None and ck.max_age == max_age),
              peq(ck.path, path if path is not None else "/app"), peq(ck.domain, domain or "localhost"), ck.origin_only == (domain is None),
              ck.expires is None)
    back = I.call(http.parse_cookie, (I.call(ck._to_request_header, ()),))
    items = list(back.items(multi=True))
    ok = pand(ok, len(items) == 1 and peq(items[0][0], key) and peq(items[0][1], value))
    return ok, {"header": header, "record": [ck.key, ck.value, ck.decoded_value, ck.domain, ck.origin_only, ck.path, ck.max_age, ck.secure, ck.http_only, ck.same_site], "sent_back": items}


def make_stubs():
    from harness import dtmodel

    return dtmodel.stubs()
