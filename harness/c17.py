"""C17 -- content negotiation picks a best-quality, most-specific offer.

Accept.__init__ (sort), _specificity, _value_matches of all four classes, quality,
best_match, _best_single_match and LanguageAccept.best_match are executed symbolically
with the client's quality values as solver reals in [0, 1] (every tie pattern), over
enumerated item / offer shapes; parse_accept_header's q handling is executed on solver
text.  The oracle is an independent definition of "quality of an offer" and "best".
"""
from __future__ import annotations

import itertools

from symex.poly import pall_in, pand, pconcat, peq, pimplies, plen, pnot, por

PROPERTY = "C17"
BOUNDS = {
    "quick": {"items": "<= 3 client ranges with solver q in [0,1] (reals)", "offers": "<= 3", "shapes": "13 item/offer shapes x every client order x every offer order", "q_text": "<= 4 characters"},
    "thorough": {"items": "<= 4", "offers": "<= 3", "q_text": "<= 5 characters"},
}
STUBS = ["codecs.lookup model (CharsetAccept), differentially tested (see C07)"]
ASSUMPTIONS = ["quality values are exact rationals (float rounding of short decimal literals preserves order and equality)",
               "item / offer texts are enumerated concrete shapes, not solver-quantified"]
OUTSIDE = ["more than 4 client ranges", "offers whose text merely starts with another offer's primary subtag (e.g. 'eng' next to 'en')"]

# --- independent matching definitions -------------------------------------------------

def m_plain(offer, rng):
    return rng == "*" or rng.lower() == offer.lower()


def spec_plain(rng):
    return (rng != "*",)


def _mime_parts(v):
    v = v.lower()
    main, *params = [p.strip() for p in v.split(";")]
    t, _, s = main.partition("/")
    return t, s, sorted(params)


def m_mime(offer, rng):
    if "/" not in rng:
        return False
    ot, os_, op = _mime_parts(offer)
    rt, rs, rp = _mime_parts(rng)
    if rt == "*" and rs != "*":
        return False
    if rt == "*" and rs == "*":
        return True
    if ot == "*" and os_ == "*":
        return True
    if rt != ot:
        return False
    return rs == "*" or os_ == "*" or (rs == os_ and rp == op)


def spec_mime(rng):
    import re

    return tuple(x != "*" for x in re.split(r"/|(?:\s*;\s*)", rng))


def m_lang(offer, rng):
    import re

    return rng == "*" or re.split("[_-]", offer.lower()) == re.split("[_-]", rng.lower())


def m_charset(offer, rng):
    import codecs

    def norm(n):
        try:
            return codecs.lookup(n).name
        except LookupError:
            return n.lower()

    return rng == "*" or norm(offer) == norm(rng)


CLASSES = {
    "Accept": (m_plain, spec_plain),
    "MIMEAccept": (m_mime, spec_mime),
    "LanguageAccept": (m_lang, spec_plain),
    "CharsetAccept": (m_charset, spec_plain),
}

SHAPES = {
    "Accept": [(["a", "*", "B"], ["b", "a", "c"]), (["*", "a"], ["a", "z"]), (["a", "a", "b"], ["b", "a"]), (["gzip", "br", "*"], ["br", "gzip", "identity"])],
    "MIMEAccept": [(["text/*", "text/html", "*/*"], ["text/html", "text/plain", "image/png"]),
                   (["text/html;level=1", "text/html", "*/*"], ["text/html", "text/html;level=1", "application/json"]),
                   (["*/*", "application/json"], ["application/json", "text/html"]),
                   (["text/*", "image/*", "bogus"], ["image/png", "text/plain"]),
                   (["text/*;level=1", "text/html", "*/*"], ["text/html", "text/plain"]),
                   # the same parameters written in another order denote the same media range
                   (["text/html;level=1;charset=utf-8", "text/plain"], ["text/plain", "text/html; charset=utf-8; level=1"])],
    "LanguageAccept": [(["en-US", "en", "*"], ["en", "en_us", "de"]), (["de", "en-gb"], ["en-GB", "de", "fr"]), (["*", "fr"], ["fr", "it"]),
                       (["en_US", "fr-CA"], ["fr", "en"]), (["en", "de"], ["it", "en-US", "de_AT"]), (["en_US", "zh-Hant-TW"], ["de", "zh", "en-GB"]),
                       # '_' and '-' are interchangeable on either side
                       (["en_US", "fr", "*"], ["fr", "en-US", "de_AT"]), (["de_at", "pt-BR"], ["pt_br", "de-AT"]),
                       # several offers share the primary subtag the client asked for: the first one
                       (["en", "de"], ["en-GB", "en_US", "de-AT"])],
    "CharsetAccept": [(["utf-8", "latin1", "*"], ["iso-8859-1", "UTF8", "ascii"]), (["ascii", "utf8"], ["us-ascii", "utf-8"]),
                      # names Python has no codec for are compared case-insensitively as written
                      (["ISO-8859-8-I", "UTF-8"], ["utf8", "iso-8859-8-i"]), (["x-User-Defined"], ["X-USER-DEFINED", "ascii"])],
}


def ref_quality(cls, items, qs, offer):
    """q of the most specific client range matching the offer (ties: the larger q, then
    the client's order); None if nothing matches"""
    match, spec = CLASSES[cls]
    best = None
    for rng, q in zip(items, qs):
        if not match(offer, rng):
            continue
        s = spec(rng)
        if best is None or s > best[0] or (s == best[0] and bool(q > best[1])):
            best = (s, q)
    return best


def ref_best(cls, items, qs, offers):
    result = None
    bq = None
    bs = None
    for off in offers:
        r = ref_quality(cls, items, qs, off)
        if r is None:
            continue
        s, q = r
        if bool(q <= 0):
            continue
        if result is None or bool(q > bq) or (bool(q == bq) and s > bs):
            result, bq, bs = off, q, s
    return result


def _primary(tag):
    import re

    return re.split("[_-]", tag, 1)[0]


def ref_best_lang(items, qs, offers):
    """documented LanguageAccept.best_match: exact (delimiter/case-normalised) match first;
    else the client's ranges cut to their primary subtag against the offers as plain values;
    else the client's ranges against the offers' primary subtags, answering with the first
    offer that has the chosen primary subtag"""
    r = ref_best("LanguageAccept", items, qs, offers)
    if r is not None:
        return r
    r = ref_best("Accept", [_primary(x) for x in items], qs, offers)
    if r is not None:
        return r
    prim = [_primary(o) for o in offers]
    r = ref_best("LanguageAccept", items, qs, prim)
    if r is not None:
        return offers[prim.index(r)]
    return None


def body_best_match(I, X, cls="Accept", shape=0, nitems=3, perm=0, operm=0):
    from werkzeug.datastructures import accept as acc

    klass = getattr(acc, cls)
    items, offers = SHAPES[cls][shape]
    items = list(list(itertools.permutations(items[:nitems]))[perm])
    offers = list(list(itertools.permutations(offers))[operm])
    qs = [X.real(f"q{i}", 0, 1) for i in range(len(items))]
    a = I.call(klass, (list(zip(items, qs)),))
    got = I.call(a.best_match, (offers,))
    exp = ref_best_lang(items, qs, offers) if cls == "LanguageAccept" else ref_best(cls, items, qs, offers)
    ok = got == exp
    # quality(offer) agrees with the definition
    for off in offers:
        r = ref_quality(cls, items, qs, off)
        gq = I.call(a.quality, (off,))
        ok = pand(ok, peq(gq, 0) if r is None else peq(gq, r[1]))
        # q = 0 or unmatched is never chosen
        if got == off and r is not None:
            ok = pand(ok, r[1] > 0)
        if got == off and r is None and cls != "LanguageAccept":
            ok = False
        if got == off and r is None and cls == "LanguageAccept":
            # chosen through a primary-subtag fallback: some client range with q > 0 shares it
            ok = pand(ok, por(*[q > 0 for rng, q in zip(items, qs) if rng == "*" or _primary(rng).lower() == _primary(off).lower()] or [False]))
    return ok, {"got": got, "exp": exp}


def body_parse_q(I, X, n=3, cls="Accept"):
    """malformed / out-of-range q is ignored; order among equal items is kept"""
    from werkzeug import http
    from werkzeug.datastructures import accept as acc

    q = X.str("q", n, minlen=n, maxcp=0x7F)
    # token characters only: anything else is not a parameter value for the (lenient)
    # options parser, which then drops the parameter and the item counts as "q absent"
    X.assume(pall_in(q, [(0x30, 0x39), 0x2E, 0x2D, 0x2B, 0x65]))
    a = I.call(http.parse_accept_header, (pconcat("a;q=", q, ",b,c;q=1.000"), getattr(acc, cls)))
    vals = [v for v, _ in list(a)]
    # reference reading of the q grammar: -?digits(.digits)? and 0 <= q <= 1
    t = q.strip()
    neg = bool(peq(t[:1], "-"))
    body = t[1:] if neg else t
    whole, dot, frac = body.partition(".")
    wf = pand(plen(whole) > 0, pall_in(whole, [(0x30, 0x39)]), (plen(frac) > 0 and pall_in(frac, [(0x30, 0x39)])) if plen(dot) else True)
    wf = bool(wf)
    in_range = False
    if wf:
        zero_whole = bool(pall_in(whole, [0x30]))
        one_whole = bool(peq(whole.lstrip("0"), "1"))
        frac_zero = bool(pall_in(frac, [0x30])) if plen(frac) else True
        if neg:
            in_range = zero_whole and frac_zero          # "-0" is 0
        else:
            in_range = zero_whole or (one_whole and frac_zero)
    ok = ("a" in vals) == (wf and in_range)
    ok = ok and ("b" in vals) and ("c" in vals) and vals.index("b") < vals.index("c")
    return ok, {"vals": vals}


def make_stubs():
    import codecs

    from symex import stdstubs

    return {codecs.lookup: stdstubs.codecs_lookup_stub}


def obligations(tier, seed):
    out = []
    quick = tier == "quick"
    for cls, shapes in SHAPES.items():
        for si in range(len(shapes)):
            for nitems in ([3] if quick else [2, 3]):
                nit = min(nitems, len(shapes[si][0]))
                for perm in range(len(list(itertools.permutations(range(nit))))):
                    operms = range(len(list(itertools.permutations(shapes[si][1]))))  # every offer order
                    for operm in sorted(set(operms)):
                        out.append({"name": f"best_match[{cls},shape={si},items={nitems},perm={perm},offers={operm}]", "body": "body_best_match",
                                    "params": {"cls": cls, "shape": si, "nitems": nitems, "perm": perm, "operm": operm},
                                    "opts": {"budget_s": 900}, "witness": si == 0 and perm == 0 and operm == 0})
    for n in (range(1, 5) if quick else range(1, 6)):
        out.append({"name": f"parse_q[n={n}]", "body": "body_parse_q", "params": {"n": n, "cls": "Accept"},
                    "opts": {"budget_s": 900, "ctx": {"max_cp": 0x7F}}, "witness": n == 3})
    return out
