"""C19 -- the development server transports requests and responses faithfully (kernels).

serving.DechunkedInput.readinto / read_chunk_len are executed symbolically over a wire
buffer whose chunk header is solver text and whose read buffer sizes are forked;
serving.WSGIRequestHandler.run_wsgi (write / start_response / execute) is executed
symbolically on a handler whose socket-facing methods are recording stubs, with the
status code a solver integer and body chunks of solver bytes.
"""
from __future__ import annotations

from symex.poly import pall_in, pand, pconcat, pcontains, peq, pimplies, pint, plen, pnone_in, pnot, por, pstr

PROPERTY = "C19"
BOUNDS = {
    "quick": {"chunk_header": "<= 3 solver characters (hex digits, sign, space, ';', 'x', '_', 'g') + CRLF/LF", "payload": "<= 6 bytes", "read_sizes": "forked 1..4, up to 6 reads",
              "response": "status solver int 100..599, 0-2 chunks of 0-2 solver bytes, Content-Length present/absent, HTTP/1.0|1.1, GET/HEAD"},
    "thorough": {"chunk_header": "<= 4 characters", "payload": "<= 9 bytes"},
}
STUBS = ["make_environ target: handler built with object.__new__, headers/server/connection are plain recording fakes; urllib.parse.urlsplit's lru_cache wrapper bypassed (its pure-Python body and unquote are interpreted from the stdlib source)",
         "rfile: readline()/read(n) over the wire buffer", "send_response / send_header / end_headers / wfile: recorders", "make_environ: constant environ",
         "selectors.DefaultSelector: nothing pending"]
ASSUMPTIONS = ["the wire after the solver chunk header is a fixed well-formed continuation"]
OUTSIDE = ["http.server.parse_request (request-line splitting, header parsing: stdlib)", "percent escapes >= 0x80 and non-ASCII request targets", "TLS peer certificates", "real sockets", "trailers and chunk extensions"]

PAYLOAD = b"abcdefghi"


class RFile:
    def __init__(self, wire):
        self.wire, self.pos = wire, 0

    def readline(self, *a):
        rest = self.wire[self.pos:]
        i = rest.find(b"\n")
        if i == -1:
            out = rest
        else:
            out = rest[: i + 1]
        self.pos += plen(out)
        return out

    def read(self, n=-1):
        rest = self.wire[self.pos:]
        out = rest if n is None or n < 0 else rest[:n]
        self.pos += plen(out)
        return out


def py_hex(text):
    """reference reading of a chunk-size line the way int(x, 16) does: returns
    (value or None).  Written independently of werkzeug; evaluated on plain or symbolic text."""
    t = text.strip()
    neg = False
    if plen(t) and bool(por(peq(t[:1], "-"), peq(t[:1], "+"))):
        neg = bool(peq(t[:1], "-"))
        t = t[1:]
    if plen(t) >= 2 and bool(por(peq(t[:2], "0x"), peq(t[:2], "0X"))):
        t = t[2:]
        if plen(t) and bool(peq(t[:1], "_")):
            t = t[1:]
    if plen(t) == 0:
        return None
    val = 0
    prev_us = True
    n = plen(t)
    for i in range(n):
        ch = t[i:i + 1]
        if bool(pall_in(ch, [(0x30, 0x39)])):
            d = ord_of(ch) - 48
        elif bool(pall_in(ch, [(0x61, 0x66)])):
            d = ord_of(ch) - 87
        elif bool(pall_in(ch, [(0x41, 0x46)])):
            d = ord_of(ch) - 55
        elif bool(peq(ch, "_")):
            if prev_us or i == n - 1:
                return None
            prev_us = True
            continue
        else:
            return None
        val = val * 16 + d
        prev_us = False
    return -val if neg else val


def ord_of(ch):
    from symex.seq import SSeq
    from symex.core import mk_int_bv

    if isinstance(ch, SSeq):
        return mk_int_bv(ch.elems[0])
    return ord(ch)


def ref_dechunk(L, rest):
    """independent chunked decoding of  <size L> NL rest  on concrete values:
    returns (payload delivered by a complete well-formed stream, or None if malformed)"""
    out = b""
    pos = 0
    size = L
    while True:
        if size is None or size < 0:
            return None
        data = rest[pos:pos + size]
        if len(data) < size:
            return None  # truncated chunk
        pos += size
        out += data
        i = rest.find(b"\n", pos)
        term = rest[pos:] if i == -1 else rest[pos:i + 1]
        if term not in (b"\n", b"\r\n", b"\r"):
            return None
        pos += len(term)
        if size == 0:
            return out
        i = rest.find(b"\n", pos)
        line = rest[pos:] if i == -1 else rest[pos:i + 1]
        pos += len(line)
        try:
            size = int(line.decode("latin1").strip(), 16)
        except ValueError:
            return None


def body_dechunk(I, X, n=2, nl="\r\n", reads=(2, 3)):
    from werkzeug.serving import DechunkedInput

    hdr = X.str("hdr", n, minlen=n, maxcp=0x7F)
    X.assume(pall_in(hdr, [(0x30, 0x39), (0x61, 0x67), (0x41, 0x46), 0x2D, 0x2B, 0x20, 0x3B, 0x78, 0x5F]))
    # wire: <hdr><nl> PAYLOAD[:6] <nl> 0 <nl> <nl>
    body = PAYLOAD[:6]
    rest = body + nl.encode() + b"0" + nl.encode() + nl.encode()
    wire = pconcat(hdr.encode("latin1"), nl.encode(), rest)
    rf = RFile(wire)
    d = I.call(DechunkedInput, (rf,))
    out = b""
    err = None
    contract = True
    try:
        for k, size in enumerate(list(reads) + [4] * 40):
            buf = bytearray(b"\xee" * size)
            if X.symbolic:
                from symex.seq import SSeq

                buf = SSeq.const(buf)
            got = I.call(d.readinto, (buf,))
            if not isinstance(got, int):
                got = int(got)
            # io.RawIOBase.readinto contract: the buffer keeps its size, count <= size
            contract = contract and plen(buf) == size and 0 <= got <= size
            if got == 0:
                break
            out = pconcat(out, bytes(buf[:got]) if isinstance(buf, bytearray) else buf[:got].freeze())
    except OSError as e:
        err = "OSError"
    L = py_hex(hdr)
    if L is not None:
        # fork the declared size into its concrete values; the reference runs on plain bytes
        if bool(L < 0):
            Lc = -1
        elif bool(L > len(rest)):
            Lc = len(rest) + 1  # any size beyond the wire: truncated
        else:
            Lc = None
            for k in range(0, len(rest) + 1):
                if bool(peq(L, k)):
                    Lc = k
                    break
        exp = ref_dechunk(Lc, rest)
    else:
        exp = None
    ok = contract
    if exp is not None:
        ok = pand(ok, err is None, peq(out, exp))
    else:
        # malformed framing: an I/O error, and only payload bytes that a well-formed-so-far
        # prefix declared were handed out before it (never header text)
        ok = pand(ok, err == "OSError", peq(out, rest[: plen(out)]))
        if L is None or bool(L < 0):
            ok = pand(ok, plen(out) == 0)
    obs = {"out": out, "err": err}
    return ok, obs


class Recorder:
    def __init__(self):
        self.chunks = []
        self.flushed = 0

    def write(self, b):
        self.chunks.append(b)

    def flush(self):
        self.flushed += 1

    def data(self):
        r = b""
        for c in self.chunks:
            r = pconcat(r, c)
        return r


class FakeSelector:
    def register(self, *a, **k):
        pass

    def select(self, timeout=None):
        return []

    def close(self):
        pass


class FakeSelectors:
    EVENT_READ = 1

    @staticmethod
    def DefaultSelector():
        return FakeSelector()


class FakeServer:
    passthrough_errors = True

    def __init__(self, app):
        self.app = app

    def log(self, *a, **k):
        pass


def body_run_wsgi(I, X, method="GET", version="HTTP/1.1", lens=(1, 2), with_cl=False, via_write=False, cl_name="Content-Length", no_headers=False):
    import werkzeug.serving as srv

    status = X.int("status", 100, 599)
    chunks = [X.bytes(f"c{i}", n, minlen=n) for i, n in enumerate(lens)]
    total = sum(lens)
    headers = [] if no_headers else [("Content-Type", "text/plain")]
    if with_cl:
        headers.append((cl_name, str(total)))

    def app(environ, start_response):
        w = start_response(pconcat(pstr(status), " X"), list(headers))
        if via_write:
            for c in chunks:
                w(c)
            return []
        return list(chunks)

    h = object.__new__(srv.WSGIRequestHandler)
    rec = Recorder()
    sent = {"status": None, "headers": [], "ended": 0}
    h.wfile = rec
    h.rfile = RFile(b"")
    h.connection = None
    h.headers = {}
    h.server = FakeServer(app)
    h.protocol_version = version
    h.make_environ = lambda: {"REQUEST_METHOD": method}
    h.send_response = lambda code, msg=None: sent.__setitem__("status", code)
    h.send_header = lambda k, v: sent["headers"].append((k, v))
    h.end_headers = lambda: sent.__setitem__("ended", sent["ended"] + 1)
    saved = srv.selectors
    srv.selectors = FakeSelectors
    try:
        I.call(h.run_wsgi, ())
    finally:
        srv.selectors = saved
    wire = rec.data()
    hk = [k.lower() for k, v in sent["headers"]]
    chunked = "transfer-encoding" in hk
    bodyless = por(pand(status >= 100, status < 200), peq(status, 204), peq(status, 304))
    exp_chunked = pand(not with_cl, method != "HEAD", pnot(bodyless), version >= "HTTP/1.1")
    ok = pand(peq(sent["status"], status), sent["ended"] == 1, peq(chunked, exp_chunked), hk.count("connection") == 1)
    # body bytes framed exactly once
    if chunked:
        exp = b""
        for c in chunks:
            if plen(c):
                exp = pconcat(exp, hex(plen(c))[2:].encode(), b"\r\n", c, b"\r\n")
        exp = pconcat(exp, b"0\r\n\r\n")
    else:
        exp = pconcat(b"", *chunks)
    ok = pand(ok, peq(wire, exp))
    return ok, {"wire": wire, "headers": sent["headers"], "status": sent["status"]}


class FakeHeaders:
    """the part of http.client.HTTPMessage that make_environ uses"""

    def __init__(self, pairs):
        self.pairs = list(pairs)

    def items(self):
        return list(self.pairs)

    def get(self, name, default=None):
        for k, v in self.pairs:
            if k.lower() == name.lower():
                return v
        return default


class FakeConn:
    pass


HEADER_SETS = [
    [("Host", "example.org"), ("X-A", "1"), ("X-A", "2"), ("X_Under", "u"), ("Content-Type", "text/plain"), ("Content-Length", "3")],
    [("Host", "example.org"), ("Transfer-Encoding", "chunked"), ("x-b", "v")],
]


def body_make_environ(I, X, n=3, skel="/{}", method="GET", hs=0, sym_header=False):
    """environ construction from the request line and headers: the application sees the
    method, the percent-decoded path, the raw query string and the headers the client sent"""
    import werkzeug.serving as srv
    from harness.c03 import punquote

    core = X.str("target", n, minlen=n, maxcp=0x7E)
    # a request target cannot contain whitespace / controls (request-line syntax); '#' is never
    # sent by clients (fragment); http.server.parse_request collapses a leading '//' before
    # make_environ runs, so the solver text does not start with '/'
    X.assume(pall_in(core, [(0x21, 0x22), (0x24, 0x7E)]))
    if skel == "/{}":
        X.assume(pnot(peq(core[:1], "/")))
    if skel.startswith("http://"):
        # a malformed authority ('[' / ']' outside an IPv6 literal) makes urlsplit raise: the
        # property does not say what the server owes such a request
        X.assume(pnone_in(core, [0x5B, 0x5D]))
    pre, _, post = skel.partition("{}")
    target = pconcat(pre, core, post)
    # percent escapes of bytes >= 0x80 (UTF-8 sequences) are outside the claim
    HI = [(0x38, 0x39), (0x41, 0x46), (0x61, 0x66)]
    for i in range(n - 1):
        X.assume(pnot(pand(peq(core[i:i + 1], "%"), pall_in(core[i + 1:i + 2], HI))))
    if pre.endswith("%") and n:
        X.assume(pnot(pall_in(core[:1], HI)))
    if sym_header:
        hval = X.str("hval", 2, minlen=0, maxcp=0x7E)
        X.assume(pall_in(hval, [(0x20, 0x7E)]))
    else:
        hval = "v"
    # the solver value also opens a repeated header (it may be empty: the join keeps it)
    pairs = [(k, v) for k, v in HEADER_SETS[hs]] + [("X-Sym", hval), ("X-Rep", hval), ("X-Rep", "b"), ("X-Rep", hval)]

    h = object.__new__(srv.WSGIRequestHandler)
    h.path = target
    h.command = method
    h.request_version = "HTTP/1.1"
    h.client_address = ("192.0.2.7", 4711)
    h.rfile = RFile(b"")
    h.connection = FakeConn()
    h.headers = FakeHeaders(pairs)
    fs = FakeServer(None)
    fs.ssl_context = None
    fs.multithread = fs.multiprocess = False
    fs.server_address = ("srv", 8080)
    fs._server_version = "Werkzeug/x"
    h.server = fs
    env = I.call(h.make_environ, ())
    # ---------------------------------------------------------------- reference
    absolute = skel.startswith("http://")
    rest = target
    host = None
    if absolute:
        rest = target[len("http://"):]
        i = rest.find("/")
        j = rest.find("?")
        cut = plen(rest)
        if i != -1:
            cut = i
        if j != -1 and j < cut:
            cut = j
        host, rest = rest[:cut], rest[cut:]
    q = rest.find("?")
    path, query = (rest, "") if q == -1 else (rest[:q], rest[q + 1:])
    ok = pand(peq(env["REQUEST_METHOD"], method), peq(env["PATH_INFO"], punquote(path)), peq(env["QUERY_STRING"], query),
              peq(env["REQUEST_URI"], target), env["SERVER_PROTOCOL"] == "HTTP/1.1", env["REMOTE_ADDR"] == "192.0.2.7",
              env["SERVER_NAME"] == "srv", env["SERVER_PORT"] == "8080", env["wsgi.url_scheme"] == "http", env["SCRIPT_NAME"] == "")
    want = {}
    for k, v in pairs:
        if "_" in k:
            continue
        key = k.upper().replace("-", "_")
        if key not in ("CONTENT_TYPE", "CONTENT_LENGTH"):
            key = "HTTP_" + key
            if key in want:
                v = pconcat(want[key], ",", v)
        want[key] = v
    if host is not None:
        want["HTTP_HOST"] = host
    got_h = {k: v for k, v in env.items() if k.startswith("HTTP_") or k in ("CONTENT_TYPE", "CONTENT_LENGTH")}
    ok = pand(ok, sorted(got_h) == sorted(want))
    if sorted(got_h) == sorted(want):
        for k in want:
            ok = pand(ok, peq(got_h[k], want[k]))
    chunked = hs == 1
    ok = pand(ok, bool(env.get("wsgi.input_terminated", False)) == chunked, isinstance(env["wsgi.input"], srv.DechunkedInput) == chunked)
    return ok, {"PATH_INFO": env["PATH_INFO"], "QUERY_STRING": env["QUERY_STRING"], "headers": sorted(got_h)}


def make_stubs():
    import urllib.parse

    def urlsplit_stub(I, url, scheme="", allow_fragments=True):
        """urllib.parse.urlsplit is wrapped in functools.lru_cache (C, hashes its arguments):
        the wrapped pure-Python function is interpreted instead"""
        return I.call(urllib.parse.urlsplit.__wrapped__, (url, scheme, allow_fragments))

    return {urllib.parse.urlsplit: urlsplit_stub}


def obligations(tier, seed):
    import itertools

    out = []
    quick = tier == "quick"
    for nl in ("\r\n", "\n"):
        for n in (range(1, 4) if quick else range(1, 5)):
            for reads in ([(1, 1), (2, 3), (4, 4), (3, 1)] if quick else [t for t in itertools.product((1, 2, 3, 4, 6), repeat=2)]):
                out.append({"name": f"dechunk[n={n},nl={nl!r},reads={reads}]", "body": "body_dechunk",
                            "params": {"n": n, "nl": nl, "reads": list(reads)},
                            "opts": {"budget_s": 900, "ctx": {"max_cp": 0x7F}}, "witness": n == 1 and reads == (2, 3)})
    for skel, top in (("/{}", 3 if quick else 5), ("/a/{}", 3 if quick else 4), ("/%{}", 3 if quick else 4), ("http://h{}", 3 if quick else 4),
                      ("/p?{}", 2 if quick else 4), ("/a;{}", 2 if quick else 3)):
        for n in range(0, top + 1):
            for hs, method in ((0, "GET"), (1, "POST")):
                if hs == 1 and n > 2:
                    continue
                out.append({"name": f"make_environ[{skel},n={n},headers={hs},{method}]", "body": "body_make_environ",
                            "params": {"n": n, "skel": skel, "method": method, "hs": hs, "sym_header": n == 0},
                            "opts": {"budget_s": 900, "ctx": {"max_cp": 0x7E}}, "witness": n == 2 and skel == "/{}" and hs == 0})
    for method in ("GET", "HEAD"):
        for version in ("HTTP/1.0", "HTTP/1.1"):
            for lens in [(), (2,), (1, 2)]:
                for via_write in (False, True):
                    out.append({"name": f"run_wsgi[{method},{version},lens={lens},no-headers,write={via_write}]", "body": "body_run_wsgi",
                                "params": {"method": method, "version": version, "lens": list(lens), "with_cl": False, "via_write": via_write,
                                           "no_headers": True},
                                "opts": {"budget_s": 900, "ctx": {"bv_ints": True}}})
    shapes = [(), (0,), (2,), (1, 2), (0, 1)] if quick else [()] + [t for k in (1, 2) for t in itertools.product(range(0, 3), repeat=k)]
    for method in ("GET", "HEAD"):
        for version in ("HTTP/1.0", "HTTP/1.1"):
            for lens in shapes:
                for with_cl in (False, True):
                    for via_write in (False, True):
                      for cl_name in (("Content-Length", "content-length", "CONTENT-LENGTH") if with_cl else ("Content-Length",)):
                        out.append({"name": f"run_wsgi[{method},{version},lens={lens},cl={with_cl}:{cl_name},write={via_write}]", "body": "body_run_wsgi",
                                    "params": {"method": method, "version": version, "lens": list(lens), "with_cl": with_cl, "via_write": via_write,
                                               "cl_name": cl_name},
                                    "opts": {"budget_s": 900, "ctx": {"bv_ints": True}},
                                    "witness": lens == (1, 2) and not with_cl and not via_write})
    return out
