"""C07 -- no client-controlled header or query text can crash request parsing.

Every parser of the HTTP utility layer is executed symbolically on a header value of n
solver characters drawn from the property's alphabet (Latin-1 without control
characters); a path on which anything but a werkzeug HTTPException escapes is a
violation.  Loops are unrolled under the unwinding bound, so non-termination within the
bound would show as 'inconclusive', never as a pass.
"""
from __future__ import annotations

from symex.poly import pall_in, pand, peq, plen, pnot

PROPERTY = "C07"
ALPHABET = [(0x20, 0x7E), (0xA0, 0xFF)]
BOUNDS = {
    "quick": {"header_text": "every string of <= 4 characters over Latin-1 without control characters (<= 3 for Request.args, environ-level cookies and the MIME/Language/Charset accept classes)"},
    "thorough": {"header_text": "<= 6 characters (<= 4 for the heavy targets)"},
}
STUBS = [
    "base64.b64decode: the stdlib function is executed natively on a model when the argument is symbolic -> modelled: raises ValueError on non-ASCII text, binascii.Error on a solver-chosen flag, else returns fresh bytes",
    "urllib.parse.parse_qsl (stdlib) on a symbolic query string: returns 0..2 pairs of arbitrary short strings (documented contract); urllib.parse.unquote is interpreted from the stdlib source where reachable",
    "codecs.lookup on symbolic text: C-level lower-casing + encodings.normalize_encoding (interpreted) + the alias/module tables of the encodings package; differentially tested against the real function on ~800 names each run",
    "datetime.timedelta(seconds=n) on a symbolic int: OverflowError beyond +-999999999 days, else an opaque value; datetime.timezone(offset): ValueError unless strictly inside +-24h; datetime.datetime(y,m,d,hh,mm,ss,tzinfo) on symbolic ints: OverflowError outside the C int range, ValueError outside the documented field ranges (month lengths incl. leap years), else an opaque value. email.utils.parsedate_to_datetime / email._parseaddr._parsedate_tz are NOT stubbed: interpreted from the stdlib source",
]
ASSUMPTIONS = ["server-controlled environ keys are well-formed and concrete"]
OUTSIDE = ["non-ASCII host names (IDNA codec)", "Request.data / get_json (C json module)", "the datetime value returned by parse_date (only 'None or not' is compared)", "Request.url beyond get_current_url on (scheme http, solver host, fixed path/query)", "texts longer than the bound"]


def _targets():
    from werkzeug import http
    from werkzeug.datastructures import Authorization, WWWAuthenticate
    from werkzeug.datastructures import accept as acc
    from werkzeug.sansio import http as shttp
    from werkzeug.sansio import utils as sutils

    OFFERS = {"Accept": ["text/html", "en", "utf-8", "gzip"], "MIMEAccept": ["text/html", "application/json", "image/*"],
              "LanguageAccept": ["en", "en-US", "de"], "CharsetAccept": ["utf-8", "latin1", "ascii"]}

    def accept_of(cls):
        def f(I, v):
            a = I.call(http.parse_accept_header, (v, cls))
            offers = OFFERS[cls.__name__]
            best = I.call(a.best_match, (offers,))
            _ = I.call(a.quality, (offers[0],))
            _ = I.call(a.__contains__, (offers[0],))
            return [list(x) if isinstance(x, tuple) else x for x in list(a)], best
        return f

    T = {
        "parse_options_header": lambda I, v: I.call(http.parse_options_header, (v,)),
        "parse_list_header": lambda I, v: I.call(http.parse_list_header, (v,)),
        "parse_dict_header": lambda I, v: I.call(http.parse_dict_header, (v,)),
        "parse_set_header": lambda I, v: list(I.call(http.parse_set_header, (v,))),
        "parse_accept_header[Accept]": accept_of(acc.Accept),
        "parse_accept_header[MIMEAccept]": accept_of(acc.MIMEAccept),
        "parse_accept_header[LanguageAccept]": accept_of(acc.LanguageAccept),
        "parse_accept_header[CharsetAccept]": accept_of(acc.CharsetAccept),
        "parse_cache_control_header": lambda I, v: str(type(I.call(http.parse_cache_control_header, (v,))).__name__),
        "parse_csp_header": lambda I, v: str(type(I.call(http.parse_csp_header, (v,))).__name__),
        "parse_etags": lambda I, v: str(type(I.call(http.parse_etags, (v,))).__name__),
        "parse_range_header": lambda I, v: _rng(I.call(http.parse_range_header, (v,))),
        "parse_content_range_header": lambda I, v: _crng(I.call(http.parse_content_range_header, (v,))),
        "parse_if_range_header": lambda I, v: str(type(I.call(http.parse_if_range_header, (v,))).__name__),
        "parse_age": lambda I, v: I.call(http.parse_age, (v,)) is None,
        "parse_cookie[sansio]": lambda I, v: _items(I, I.call(shttp.parse_cookie, (v,))),
        "parse_cookie[environ]": lambda I, v: _items(I, I.call(http.parse_cookie, ({"HTTP_COOKIE": v},))),
        # the outcome depends on the base64 stub: only "returned" is comparable
        "Authorization.from_header": lambda I, v: (I.call(Authorization.from_header, (v,)), "returned")[1],
        "WWWAuthenticate.from_header": lambda I, v: _auth(I.call(WWWAuthenticate.from_header, (v,))),
        "get_content_length": lambda I, v: I.call(sutils.get_content_length, (v, None)),
        "get_host": lambda I, v: I.call(sutils.get_host, ("http", v, ("srv", 80))),
        "host_is_trusted": lambda I, v: I.call(sutils.host_is_trusted, (v, ["example.com", ".example.org"])),
        "Request.args": lambda I, v: _args(I, v),
        # result text may contain modelled punycode output: only "returned" is comparable
        "get_current_url[host]": lambda I, v: (I.call(sutils.get_current_url, ("http", v, "", "/p", b"q=1")), "returned")[1],
        # email.utils.parsedate_to_datetime / _parsedate_tz are interpreted from the stdlib
        # source; the datetime constructors are contract stubs (see make_stubs)
        "parse_date": lambda I, v: I.call(http.parse_date, (v,)) is None,
        # form data: the body is the latin-1 image of the solver text (arbitrary bytes)
        "form[multipart]": lambda I, v: _form(I, v, "multipart/form-data", {"boundary": "b"}),
        "form[urlencoded]": lambda I, v: _form(I, v, "application/x-www-form-urlencoded", {}),
    }
    return T


def _items(I, md):
    """(key, value) pairs of a MultiDict, read through the interpreter"""
    return [list(kv) for kv in I.call(md.items, (), {"multi": True})]


def _rng(r):
    return None if r is None else (r.units, [list(x) for x in r.ranges])


def _crng(r):
    return None if r is None else (r.units, r.start, r.stop, r.length)


def _auth(a):
    if a is None:
        return None
    return (a.type, a.token, a.parameters is None)


def _form(I, v, mimetype, options):
    """FormDataParser.parse as Request.form / Request.files drive it (silent mode)"""
    from harness.c01 import Stream
    from werkzeug.formparser import FormDataParser

    body = v.encode("latin-1")
    p = I.call(FormDataParser, (), {})
    stream, form, files = I.call(p.parse, (Stream(body), mimetype, None, dict(options)))
    n_form = len(_items(I, form))
    n_files = len(list(I.call(files.keys, ())))
    return n_form >= 0 and n_files >= 0


def _args(I, v):
    from werkzeug.sansio.request import Request

    r = Request("GET", "http", ("srv", 80), "", "/", v.encode("latin1"), {}, "1.2.3.4")
    a = I.getattr(r, "args")
    _items(I, a)
    return "parsed"  # the values come from the parse_qsl stub and are not comparable


def body_parser(I, X, target="parse_list_header", n=3, skel="{}"):
    from werkzeug.exceptions import HTTPException
    from symex.poly import pconcat

    T = _targets()
    core = X.str("text", n, minlen=n, maxcp=0xFF)
    X.assume(pall_in(core, ALPHABET))
    pre, _, post = skel.partition("{}")
    text = pconcat(pre, core, post) if (pre or post) else core
    if target in ("host_is_trusted", "get_host"):
        # IDNA encoding of non-ASCII host names is C-level codec code (outside the claim)
        X.assume(pall_in(core, [(0x20, 0x7E)]))
    for kid, pred in KNOWN_PREDICATES.get(target, []):
        X.known(kid, pred(core))
    try:
        r = T[target](I, text)
        return True, {"result": r}
    except HTTPException as e:
        return True, {"http_exception": type(e).__name__}
    except Exception as e:
        return False, {"exception": type(e).__name__, "msg": str(e)[:80]}


def _malformed_host(text):
    """a Host that the stdlib URL splitter may reject: brackets, a port separator, or
    non-ASCII characters (the region of the known finding below)"""
    from symex.poly import pnone_in

    return pnot(pand(pnone_in(text, [0x5B, 0x5D, 0x3A]), pall_in(text, [(0x20, 0x7E)])))


# input regions of listed known findings (id -> predicate over the text), per target
KNOWN_PREDICATES = {"get_current_url[host]": [("C07-request-url-malformed-host", _malformed_host)]}


def make_stubs():
    import base64
    import binascii

    from symex.seq import SSeq

    def b64decode_stub(I, s, altchars=None, validate=False):
        """contract of base64.b64decode on str input: ValueError on non-ASCII text,
        binascii.Error on malformed base64, else some bytes"""
        from symex.core import ctx
        from symex.seq import chars_in

        if isinstance(s, SSeq):
            if s.kind == "str" and not bool(chars_in(s, [(0, 127)])):
                raise ValueError("string argument should contain only ASCII characters")
            c = ctx()
            k = next(c.fresh)
            import z3

            if c.decide(z3.Bool(f"b64_malformed_{k}")):
                raise binascii.Error("Incorrect padding")
            return SSeq.fresh(f"b64_out_{k}", 3, "bytes")
        return base64.b64decode(s, altchars, validate)

    import datetime

    from harness import dtmodel

    import urllib.parse

    def parse_qsl_stub(I, qs, *a, **kw):
        """urllib.parse.parse_qsl on str input: documented to return a list of
        (name, value) str pairs; modelled as 0..2 pairs of arbitrary short strings"""
        from symex.core import ctx

        if not isinstance(qs, SSeq):
            return urllib.parse.parse_qsl(qs, *a, **kw)
        c = ctx()
        k = next(c.fresh)
        import z3

        n = c.concretize(z3.If(z3.Bool(f"qsl{k}_a"), 2, 0))
        return [(SSeq.fresh(f"qsl{k}_k{i}", 1, "str", minlen=1), SSeq.fresh(f"qsl{k}_v{i}", 1, "str", minlen=1)) for i in range(n)]

    import codecs

    from symex import stdstubs

    def urlsplit_stub(I, url, scheme="", allow_fragments=True):
        """urllib.parse.urlsplit is wrapped in functools.lru_cache (C, hashes its arguments):
        the wrapped pure-Python function is interpreted instead"""
        return I.call(urllib.parse.urlsplit.__wrapped__, (url, scheme, allow_fragments))

    from harness.c03 import make_stubs as quote_stubs

    st = {base64.b64decode: b64decode_stub, urllib.parse.parse_qsl: parse_qsl_stub,
          codecs.lookup: stdstubs.codecs_lookup_stub, urllib.parse.urlsplit: urlsplit_stub}
    st.update(quote_stubs())
    st.update(dtmodel.stubs())
    return st


def extra_checks(tier, seed, active_known):
    import time

    from symex import stdstubs

    t0 = time.time()
    try:
        n = stdstubs.codecs_lookup_selftest()
        return [{"name": "codecs.lookup-model-differential", "complete": True,
                 "summary": {"name": "codecs.lookup model vs C codecs.lookup", "cases": n, "wall_s": round(time.time() - t0, 2)},
                 "samples": [{"stub_differential": "codecs.lookup", "cases_compared": n}]}]
    except AssertionError as e:
        return [{"name": "codecs.lookup-model-differential", "complete": False,
                 "engine_errors": [{"what": "stub differential failed", "detail": str(e)}]}]


def obligations(tier, seed):
    out = []
    quick = tier == "quick"
    T = _targets()
    heavy = {"form[multipart]": 2, "form[urlencoded]": 2, "get_current_url[host]": 2, "Request.args": 3, "parse_cookie[environ]": 3, "parse_accept_header[CharsetAccept]": 3,
             "parse_accept_header[LanguageAccept]": 3, "parse_accept_header[MIMEAccept]": 3}
    for name in T:
        top = 4 if quick else 6
        if name in heavy:
            top = heavy[name] if quick else heavy[name] + 1
        for n in range(0, top + 1):
            out.append({"name": f"robust[{name},n={n}]", "body": "body_parser", "params": {"target": name, "n": n},
                        "opts": {"budget_s": 300 if quick else 1800, "ctx": {"max_cp": 0xFF}},
                        "witness": n == 2})
    # structured inputs: a concrete skeleton around the symbolic core reaches parser states
    # (inside quotes, after a parameter name, inside a range spec) that short free text cannot
    SK = {
        "parse_cookie[sansio]": ['k="{}"', "k={}; j=1"], "parse_cookie[environ]": ['k="{}"'],
        "parse_options_header": ["a; k={}", 'a;k="{}"', "a; k*={}", "a; k*0={}", "a;{}=y"], "parse_dict_header": ['k="{}", j', "k*={}"],
        "parse_list_header": ['"{}", j'], "parse_set_header": ['"{}", J'],
        "parse_accept_header[Accept]": ["a;q={}", "a; k={}", "a;{}=y"], "parse_accept_header[MIMEAccept]": ["a/b;q={}", "a/{}", "a/b;{}=y"],
        "parse_accept_header[LanguageAccept]": ["en;q={}", "en-{}"], "parse_accept_header[CharsetAccept]": ["utf-8;q={}"],
        "parse_cache_control_header": ["max-age={}", 'private="{}"'], "parse_csp_header": ["default-src {}"],
        "parse_etags": ['W/"{}"', '"{}", "b"'], "parse_if_range_header": ['W/"{}"'],
        "parse_range_header": ["bytes={}", "bytes=0-1,{}"], "parse_content_range_header": ["bytes {}", "bytes 0-{}", "bytes {}/9", "bytes 1-2{}/9", "bytes {}-5/9"],
        "Authorization.from_header": ["Basic {}", "Digest k={}", "Bearer {}"], "WWWAuthenticate.from_header": ["Digest k={}", 'Digest k="{}"'],
        "get_host": ["{}:80", "[{}]"], "host_is_trusted": ["{}.example.org", "{}:80"],
        "Request.args": ["a={}&b=1"],
        "get_current_url[host]": ["xn--{}", "a.xn--{}", "{}.b"],
        "form[multipart]": ["--b\r\n{}", "--b\r\nContent-Disposition: form-data; name=\"a\"{}\r\n\r\nx\r\n--b--\r\n",
                            "--b\r\nContent-Disposition: {}\r\n\r\nx\r\n--b--\r\n", "--b\r\nContent-Disposition: form-data; name=a\r\n{}: v\r\n\r\nx\r\n--b--\r\n",
                            "--b\r\nContent-Disposition: form-data; name=a; filename=f\r\nContent-Type: {}\r\n\r\nx\r\n--b--\r\n",
                            "--b\r\nContent-Disposition: form-data; name=a\r\n\r\n{}\r\n--b--\r\n"],
        "form[urlencoded]": ["a={}&b=1", "{}=1"],
        "parse_age": ["8640000000000{}", "{}99999999999999", "-{}"],
        "parse_date": ["1 Jan {} 00:00 GMT", "{} Jan 2024 00:00 GMT", "1 {} 2024 00:00", "1 Jan 2024 {} GMT", "1 Jan 2024 00:00 {}",
                       "Mon, {} 2024 00:00:00 GMT", "Sunday, 06-Nov-{} 08:49:37 GMT", "29 Feb {}00 0:0",
                       "1 Jan 99999999{} 0:0", "1 Jan 2024 99999999{}:0", "1 Jan 2024 0:0 +99999999999{}",
                       # the ends of the calendar with a zone offset that crosses them
                       "31 Dec 9999 23:5{} -0100", "31 Dec 9999 2{}:00 -1200", "1 Jan 100 0:{} +0100"],
    }
    for name, skels in SK.items():
        for skel in skels:
            top = 3 if quick else 4
            if name == "parse_cookie[sansio]" and skel.startswith('k="'):
                top = 4 if quick else 5
            if name in heavy and not name.startswith("parse_cookie"):
                top = 2 if quick else 3
            for n in range(1, top + 1):
                out.append({"name": f"robust-skel[{name},{skel},n={n}]", "body": "body_parser",
                            "params": {"target": name, "n": n, "skel": skel},
                            # (form bodies: the solver bytes may decode to code points up to U+07FF)
                            "opts": {"budget_s": 300 if quick else 1800, "ctx": {"max_cp": 0x7FF if name.startswith("form[") else 0xFF}}})
    return out
