"""C05 -- responses are well-formed WSGI output for every body, status and method.

Response.get_wsgi_response / get_wsgi_headers / get_app_iter / iter_encoded and every
Headers mutator (with _str_header_value) are executed symbolically: the status code is a
solver integer, header values are solver text over every 8-bit code point incl. CR/LF,
body chunk contents are solver bytes (lengths forked).
"""
from __future__ import annotations

from symex.poly import pall_in, pand, pconcat, pcontains, peq, pimplies, plen, pnone_in, pnot, por, pstr

PROPERTY = "C05"
BOUNDS = {
    "quick": {"status": "solver int 100..599", "body": "every shape of 0-3 chunks of 0-2 solver bytes", "header_value": "<= 4 characters, every 8-bit code point", "methods": ["GET", "HEAD", "POST"]},
    "thorough": {"body": "0-3 chunks of 0-3 bytes", "header_value": "<= 5 characters"},
}
STUBS = ["the status code is injected as Response._status_code (status text normalisation is a table lookup, checked separately for ints)"]
ASSUMPTIONS = ["Location texts are a fixed URL skeleton plus solver characters without URL delimiters", "str body items hold code points <= U+07FF"]
OUTSIDE = ["str body items beyond U+07FF", "real file wrappers (direct passthrough is exercised with a closable iterable)", "Location values with solver-chosen delimiters / IDN hosts", "generator bodies (not a sequence: no computed length)"]


def utf8_len(s):
    """number of UTF-8 bytes of a text over U+0000..U+07FF (independent of the codec model)"""
    n = 0
    for i in range(plen(s)):
        n += 1 if bool(pall_in(s[i:i + 1], [(0, 0x7F)])) else 2
    return n


def body_wsgi_response(I, X, method="GET", lens=(1, 2), preset="absent", kinds=None):
    from werkzeug.wrappers import Response

    kinds = kinds or "b" * len(lens)
    # 's' items are str (solver code points up to U+07FF): the response encodes them as UTF-8
    items = [X.bytes(f"c{i}", n, minlen=n) if k == "b" else X.str(f"c{i}", n, minlen=n, maxcp=0x7FF) for i, (n, k) in enumerate(zip(lens, kinds))]
    resp = Response(list(items))
    if "s" in kinds:
        for it, k in zip(items, kinds):
            if k == "s":
                X.assume(pall_in(it, [(0, 0x7FF)]))
        chunks = [it if k == "b" else it.encode("utf-8") for it, k in zip(items, kinds)]
        lens = [n if k == "b" else utf8_len(it) for n, it, k in zip(lens, items, kinds)]
    else:
        chunks = items
    status = X.int("status", 100, 599)
    resp._status_code = status
    resp._status = "200 OK"
    closed = []
    resp.call_on_close(lambda: closed.append(1))
    total = sum(lens)
    if preset == "right":
        resp.headers["Content-Length"] = str(total)
    elif preset == "other":
        resp.headers["Content-Length"] = "7"
    elif preset == "dup":
        # an application (or a proxy layer) that added the header twice
        resp.headers.add("Content-Length", str(total))
        resp.headers.add("X-Between", "1") if total % 2 else None
        resp.headers.add("Content-Length", str(total))
    environ = {"REQUEST_METHOD": method, "wsgi.url_scheme": "http", "SERVER_NAME": "s", "SERVER_PORT": "80", "PATH_INFO": "/"}
    app_iter, st, headers = I.call(resp.get_wsgi_response, (environ,))
    out = b""
    n_items = 0
    for item in I.call(app_iter.__iter__, ()) if hasattr(app_iter, "__next__") or not isinstance(app_iter, tuple) else app_iter:
        out = pconcat(out, item)
        n_items += 1
    if hasattr(app_iter, "close"):
        I.call(app_iter.close, ())
    hd = {}
    for k, v in headers:
        hd.setdefault(k.lower(), []).append(v)
    bodyless_status = por(pand(status >= 100, status < 200), peq(status, 204), peq(status, 304))
    no_cl_status = por(pand(status >= 100, status < 200), peq(status, 204))
    ok = True
    # header values are native strings without CR/LF
    for k, v in headers:
        ok = pand(ok, pnone_in(v, [10, 13]))
    cl = hd.get("content-length")
    # no body for HEAD and bodyless statuses
    if method == "HEAD" or bool(bodyless_status):
        ok = pand(ok, plen(out) == 0)
    else:
        ok = pand(ok, peq(out, pconcat(b"", *chunks)))
    if bool(no_cl_status):
        ok = pand(ok, cl is None)
    elif bool(peq(status, 304)):
        # entity headers are stripped and no length is computed for a response that sends no body
        ok = pand(ok, cl is None)
    else:
        if preset == "absent":
            # the computed length is the number of body bytes the response produces for GET
            ok = pand(ok, cl is not None and len(cl) == 1 and peq(cl[0], str(total)))
        elif preset == "dup":
            ok = pand(ok, cl is not None and all(bool(peq(x, str(total))) for x in cl))
        else:
            ok = pand(ok, cl is not None and len(cl) == 1 and peq(cl[0], str(total) if preset == "right" else "7"))
    ok = pand(ok, len(closed) == 1)
    return ok, {"out": out, "headers": headers, "closed": len(closed)}


class PassBody:
    """an application iterable handed through in direct passthrough mode"""

    def __init__(self, chunks):
        self.chunks = list(chunks)
        self.closed = 0

    def __iter__(self):
        return iter(self.chunks)

    def close(self):
        self.closed += 1


def body_passthrough(I, X, method="GET", lens=(2,)):
    """direct passthrough bodies: still no body bytes for HEAD / bodyless statuses, and the
    close callbacks and the wrapped iterable's close run exactly once"""
    from werkzeug.wrappers import Response

    chunks = [X.bytes(f"c{i}", n, minlen=n) for i, n in enumerate(lens)]
    pb = PassBody(chunks)
    resp = Response(pb, direct_passthrough=True)
    status = X.int("status", 100, 599)
    resp._status_code = status
    resp._status = "200 OK"
    closed = []
    resp.call_on_close(lambda: closed.append(1))
    bodyless0 = por(pand(status >= 100, status < 200), peq(status, 204), peq(status, 304))
    # known finding: when the passthrough body is actually handed out, closing it does not
    # run the response's registered close callbacks
    X.known("C05-passthrough-skips-close-callbacks", pand(method != "HEAD", pnot(bodyless0)))
    environ = {"REQUEST_METHOD": method, "wsgi.url_scheme": "http", "SERVER_NAME": "s", "SERVER_PORT": "80", "PATH_INFO": "/"}
    app_iter, st, headers = I.call(resp.get_wsgi_response, (environ,))
    out = b""
    for item in (I.call(app_iter.__iter__, ()) if not isinstance(app_iter, (tuple, list)) else app_iter):
        out = pconcat(out, item)
    if hasattr(app_iter, "close"):
        I.call(app_iter.close, ())
    bodyless = por(pand(status >= 100, status < 200), peq(status, 204), peq(status, 304))
    if method == "HEAD" or bool(bodyless):
        ok = plen(out) == 0
    else:
        ok = peq(out, pconcat(b"", *chunks))
    ok = pand(ok, len(closed) == 1, pb.closed == 1)
    return ok, {"out": out, "closed": len(closed), "body_closed": pb.closed}


def body_location(I, X, n=1, form="absolute", autocorrect=False):
    """Location is an ASCII URI: whatever IRI text the application stored, and whatever
    (non-ASCII) URL the request had when autocorrect joins them, the header handed to the
    server holds only printable ASCII"""
    from werkzeug.wrappers import Response

    t = X.str("loc", n, minlen=n, maxcp=0x7FF)
    X.assume(pall_in(t, [(0x20, 0x7E), (0xA0, 0x7FF)]))
    X.assume(pnone_in(t, [0x23, 0x3F, 0x5B, 0x5D, 0x40, 0x3A, 0x2F]))   # the solver part holds no URL delimiters
    loc = pconcat({"absolute": "http://h/p", "relative": "x", "query": "?q="}[form], t)
    resp = Response(b"", 302)
    resp.autocorrect_location_header = autocorrect
    I.call(resp.headers.__setitem__, ("Location", loc))
    # PATH_INFO / SCRIPT_NAME as a WSGI server passes non-ASCII: UTF-8 bytes tunnelled through latin-1
    environ = {"REQUEST_METHOD": "GET", "wsgi.url_scheme": "http", "SERVER_NAME": "s", "SERVER_PORT": "80",
               "SCRIPT_NAME": "/r\xc3\xa9", "PATH_INFO": "/caf\xc3\xa9/i", "QUERY_STRING": "a=b"}
    headers = I.call(resp.get_wsgi_headers, (environ,))
    out = I.call(headers.get, ("Location",))
    ok = out is not None and pall_in(out, [(0x21, 0x7E)])
    if autocorrect or form == "absolute":
        ok = pand(ok, pcontains(out, "://"))
    return ok, {"location": out}


class ClosableBody:
    """a closable, non-sequence application iterable (like a file object)"""

    def __init__(self, chunks):
        self.chunks = list(chunks)
        self.closed = 0

    def __iter__(self):
        return iter(self.chunks)

    def close(self):
        self.closed += 1


def body_buffered_close(I, X, via="make_sequence", method="GET", lens=(2,)):
    """a closable iterable body that is buffered into a list (explicitly by make_sequence,
    implicitly by get_data / calculate_content_length) is still closed exactly once, and the
    registered callbacks still run exactly once, when the server closes the response iterable"""
    from werkzeug.wrappers import Response

    chunks = [X.bytes(f"c{i}", n, minlen=n) for i, n in enumerate(lens)]
    cb = ClosableBody(chunks)
    resp = Response(cb)
    status = X.int("status", 100, 599)
    resp._status_code = status
    resp._status = "200 OK"
    closed = []
    resp.call_on_close(lambda: closed.append(1))
    if via == "make_sequence":
        I.call(resp.make_sequence, ())
    elif via == "get_data":
        I.call(resp.get_data, ())
    elif via == "calculate_content_length":
        I.call(resp.calculate_content_length, ())
    environ = {"REQUEST_METHOD": method, "wsgi.url_scheme": "http", "SERVER_NAME": "s", "SERVER_PORT": "80", "PATH_INFO": "/"}
    if via == "partial":
        # CPython drives the response here (the interpreter evaluates generators eagerly and
        # would hide what closing a half-consumed generator does); solver values still flow
        # through the real code, branches on them fork as usual
        app_iter, st, headers = resp.get_wsgi_response(environ)
    else:
        app_iter, st, headers = I.call(resp.get_wsgi_response, (environ,))
    out = b""
    if via == "partial":
        # the server stops after the first chunk (client went away) and closes the iterable;
        # driven by CPython's own iterator protocol (generators are closed, not exhausted)
        it = iter(app_iter)
        for item in it:
            out = pconcat(out, item)
            break
        if hasattr(app_iter, "close"):
            app_iter.close()
        ok = pand(len(closed) == 1, cb.closed == 1)
        return ok, {"out": out, "closed": len(closed), "body_closed": cb.closed}
    for item in (I.call(app_iter.__iter__, ()) if not isinstance(app_iter, (tuple, list)) else app_iter):
        out = pconcat(out, item)
    if hasattr(app_iter, "close"):
        I.call(app_iter.close, ())
    bodyless = por(pand(status >= 100, status < 200), peq(status, 204), peq(status, 304))
    if method == "HEAD" or bool(bodyless):
        ok = plen(out) == 0
    else:
        ok = peq(out, pconcat(b"", *chunks))
    ok = pand(ok, len(closed) == 1, cb.closed == 1)
    return ok, {"out": out, "closed": len(closed), "body_closed": cb.closed}


MUTATORS = ["add", "set", "setitem", "setlist", "extend-list", "extend-kw", "update-dict", "setdefault", "add_header", "index-assign",
            "slice-assign", "init", "setlistdefault", "set-option", "ior"]


def body_header_hygiene(I, X, mutator="add", n=2):
    from werkzeug.datastructures import Headers

    v = X.str("v", n, minlen=n, maxcp=0xFF)
    h = I.call(Headers, ([("X-A", "1"), ("X-B", "2")],))
    raised = False
    try:
        if mutator == "add":
            I.call(h.add, ("X-C", v))
        elif mutator == "set":
            I.call(h.set, ("X-A", v))
        elif mutator == "setitem":
            I.call(h.__setitem__, ("X-A", v))
        elif mutator == "setlist":
            I.call(h.setlist, ("X-A", ["ok", v]))
        elif mutator == "extend-list":
            I.call(h.extend, ([("X-C", v)],))
        elif mutator == "extend-kw":
            I.call(h.extend, (), {"x_c": v})
        elif mutator == "update-dict":
            I.call(h.update, ({"X-A": v},))
        elif mutator == "setdefault":
            I.call(h.setdefault, ("X-C", v))
        elif mutator == "add_header":
            I.call(h.add_header, ("X-C", v))
        elif mutator == "index-assign":
            I.call(h.__setitem__, (0, ("X-A", v)))
        elif mutator == "slice-assign":
            I.call(h.__setitem__, (slice(0, 1), [("X-A", v)]))
        elif mutator == "init":
            h = I.call(Headers, ([("X-A", "1"), ("X-B", "2"), ("X-C", v)],))
        elif mutator == "setlistdefault":
            I.call(h.setlistdefault, ("X-C", [v]))
        elif mutator == "set-option":
            I.call(h.set, ("X-A", "ok"), {"opt": v})
        elif mutator == "ior":
            I.call(h.__ior__, ({"X-A": v},))
    except ValueError:
        raised = True
    items = [(k, val) for k, val in I.call(h.__iter__, ())]
    has_nl = pnot(pnone_in(v, [10, 13]))
    ok = True
    for k, val in items:
        ok = pand(ok, pnone_in(val, [10, 13]))
    if raised:
        # refused: only for values with a line break (nothing with a line break is stored:
        # checked above for every item)
        ok = pand(ok, has_nl)
    else:
        ok = pand(ok, pnot(has_nl))
        if mutator != "set-option":
            ok = pand(ok, por(*[peq(val, v) for k, val in items]) if items else False)
    return ok, {"raised": raised, "items": items}


def body_header_native_str(I, X, mutator="set", start="empty"):
    """header values are native strings: a value given as an int is stored (and handed to the
    server) as its decimal text, through every mutator, on an empty and on a filled Headers"""
    from werkzeug.datastructures import Headers

    n = X.int("n", 0, 99999)
    h = I.call(Headers, ([] if start == "empty" else [("X-B", "2")],))
    if mutator == "add":
        I.call(h.add, ("X-C", n))
    elif mutator == "set":
        I.call(h.set, ("X-C", n))
    elif mutator == "setitem":
        I.call(h.__setitem__, ("X-C", n))
    elif mutator == "setlist":
        I.call(h.setlist, ("X-C", [n]))
    elif mutator == "setdefault":
        I.call(h.setdefault, ("X-C", n))
    elif mutator == "update-dict":
        I.call(h.update, ({"X-C": n},))
    elif mutator == "ior":
        I.call(h.__ior__, ({"X-C": n},))
    elif mutator == "extend-list":
        I.call(h.extend, ([("X-C", n)],))
    elif mutator == "init":
        h = I.call(Headers, ([("X-C", n)],))
    wsgi = I.call(h.to_wsgi_list, ())
    got = [v for k, v in wsgi if k == "X-C"]
    ok = len(got) == 1
    if ok:
        from symex.seq import SSeq

        ok = pand(isinstance(got[0], (str, SSeq)), peq(got[0], pstr(n)) if isinstance(got[0], (str, SSeq)) else False)
    tname = type(got[0]).__name__ if got else None
    return ok, {"value_type": "str" if tname == "SSeq" else ("int" if tname in ("SInt", "int") else tname)}


def body_status(I, X):
    """status normalisation for ints: code and text stay consistent"""
    from werkzeug.wrappers import Response

    resp = Response(b"")
    code = X.int("code", 100, 599)
    I.setattr(resp, "status_code", code)
    st = I.getattr(resp, "status")
    sc = I.getattr(resp, "status_code")
    ok = pand(peq(sc, code), peq(st[:3], pstr(code)), peq(st[3:4], " "), pnone_in(st, [10, 13]))
    return ok, {"status": st}


def obligations(tier, seed):
    import itertools

    out = []
    quick = tier == "quick"
    shapes = [()] + [t for k in (1, 2, 3) for t in itertools.product(range(0, 3 if quick else 4), repeat=k)]
    for method in ("GET", "HEAD", "POST"):
        for lens in shapes:
            for preset in ("absent", "right", "other"):
                out.append({"name": f"wsgi_response[{method},lens={lens},cl={preset}]", "body": "body_wsgi_response",
                            "params": {"method": method, "lens": list(lens), "preset": preset},
                            "opts": {"budget_s": 600, "ctx": {"bv_ints": True}}, "witness": lens == (1, 2) and preset == "absent"})
    for method in ("GET", "HEAD"):
        for lens in [(), (1,), (2,), (1, 2)]:
            out.append({"name": f"wsgi_response[{method},lens={lens},cl=dup]", "body": "body_wsgi_response",
                        "params": {"method": method, "lens": list(lens), "preset": "dup"},
                        "opts": {"budget_s": 600, "ctx": {"bv_ints": True}}})
    for method in ("GET", "HEAD"):
        for lens, kinds in [((1,), "s"), ((2,), "s"), ((1, 1), "sb"), ((1, 2), "bs"), ((2, 1), "ss")] + ([] if quick else [((3,), "s"), ((2, 2), "ss"), ((1, 1, 1), "sbs")]):
            for preset in ("absent", "right"):
                out.append({"name": f"wsgi_response[{method},lens={lens},kinds={kinds},cl={preset}]", "body": "body_wsgi_response",
                            "params": {"method": method, "lens": list(lens), "preset": preset, "kinds": kinds},
                            "opts": {"budget_s": 600, "ctx": {"bv_ints": True, "max_cp": 0x7FF}}})
    for form in ("absolute", "relative", "query"):
        for autocorrect in (False, True):
            for n in ((0, 1, 2) if quick else (0, 1, 2, 3)):
                out.append({"name": f"location[{form},autocorrect={autocorrect},n={n}]", "body": "body_location",
                            "params": {"n": n, "form": form, "autocorrect": autocorrect},
                            "opts": {"budget_s": 900, "ctx": {"max_cp": 0x7FF}}})
    for via in ("make_sequence", "get_data", "calculate_content_length", "none", "partial"):
        for method in ("GET", "HEAD"):
            for lens in [(), (2,), (1, 0)] + ([(1, 1, 1)] if via == "partial" else []):
                out.append({"name": f"buffered_close[{via},{method},lens={lens}]", "body": "body_buffered_close",
                            "params": {"via": via, "method": method, "lens": list(lens)},
                            "opts": {"budget_s": 600, "ctx": {"bv_ints": True}}})
    for method in ("GET", "HEAD", "POST"):
        for lens in [(), (2,), (1, 0, 2)]:
            out.append({"name": f"passthrough[{method},lens={lens}]", "body": "body_passthrough", "params": {"method": method, "lens": list(lens)},
                        "opts": {"budget_s": 600, "ctx": {"bv_ints": True}}, "witness": lens == (2,)})
    for m in MUTATORS:
        for n in (range(0, 5) if quick else range(0, 6)):
            out.append({"name": f"header_hygiene[{m},n={n}]", "body": "body_header_hygiene", "params": {"mutator": m, "n": n},
                        "opts": {"budget_s": 600, "ctx": {"max_cp": 0xFF}}, "witness": n == 2 and m == "add"})
    for m in ("add", "set", "setitem", "setlist", "setdefault", "update-dict", "ior", "extend-list", "init"):
        for start in ("empty", "filled"):
            out.append({"name": f"header_native_str[{m},{start}]", "body": "body_header_native_str", "params": {"mutator": m, "start": start},
                        "opts": {"budget_s": 600, "ctx": {"bv_ints": True}}})
    out.append({"name": "status[int]", "body": "body_status", "params": {}, "opts": {"budget_s": 600, "ctx": {"bv_ints": True}}, "witness": True})
    return out


def make_stubs():
    from harness.c07 import make_stubs as m

    return m()
