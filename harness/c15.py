"""C15 -- URLs keep their meaning between IRI, URI, environ and request (ASCII subset).

(3) middleware.dispatcher.DispatcherMiddleware.__call__ is executed symbolically on a
    PATH_INFO of n solver characters for enumerated mount tables over nested prefixes.
(1) urls.iri_to_uri / uri_to_iri (with _make_unquote_part's live regexes, the
    'werkzeug.url_quote' handler and the stdlib urlsplit / quote / unquote / urlunsplit
    interpreted from their source) are executed on 'http://h/...' URLs whose path, query
    or fragment contains solver characters (printable ASCII incl. '%' escapes): both
    directions are idempotent, the round trip is a fixpoint after one step, URIs are ASCII
    and no reserved delimiter is introduced by un-quoting.
(2) sansio.utils.get_current_url followed by splitting the URL again recovers root path +
    path and the query for solver path text (incl. raw '?', '#', '%', space).
Non-ASCII text, IDNA hosts and the EnvironBuilder/Request objects are outside the claim.
"""
from __future__ import annotations

from symex.poly import pall_in, pand, pconcat, peq, plen, pnone_in, pnot, por, pstartswith

PROPERTY = "C15"
BOUNDS = {
    "quick": {"path_info": "<= 6 solver characters over '/', 'a', 'b', '.', '%' and other printable ASCII", "mount tables": 5},
    "thorough": {"path_info": "<= 8 characters"},
}
STUBS = ["mounted applications are recorders", "urllib.parse.urlsplit: the lru_cache wrapper is bypassed, the wrapped Python function is interpreted",
         "urllib.parse.quote: per-byte model (differentially tested); unquote: interpreted from the stdlib source / ASCII model in the oracle"]
ASSUMPTIONS = ["mount tables are enumerated, not solver-quantified"]
OUTSIDE = ["non-ASCII solver characters in path/query/fragment", "solver-quantified IDN labels (concrete IDN hosts only)", "EnvironBuilder -> Request object path (latin-1 tunnelling)"]

TABLES = [
    {"/a": "A"},
    {"/a": "A", "/a/b": "AB"},
    {"/a": "A", "/a/b": "AB", "/a/b/a": "ABA", "/b": "B"},
    {"/a/b": "AB", "/ab": "X"},
    {"": "ROOT", "/a": "A"},
]


def body_dispatch(I, X, ti=0, n=4, script_name=""):
    from werkzeug.middleware.dispatcher import DispatcherMiddleware

    seen = {}

    def mk(tag):
        def app(environ, start_response):
            seen["app"] = tag
            seen["script"] = environ["SCRIPT_NAME"]
            seen["path"] = environ["PATH_INFO"]
            return [b""]
        return app

    table = TABLES[ti]
    mw = DispatcherMiddleware(mk("DEFAULT"), {k: mk(v) for k, v in table.items()})
    tail = X.str("path", n, minlen=n, maxcp=0x7E)
    X.assume(pall_in(tail, [(0x21, 0x7E)]))
    path = pconcat("/", tail)
    environ = {"PATH_INFO": path, "SCRIPT_NAME": script_name}
    I.call(mw.__call__, (environ, lambda *a: None))
    # reference: the longest mount that is the path itself or a prefix of it at a segment boundary
    best = None
    for mount in sorted(table, key=len, reverse=True):
        if mount == "":
            continue
        if bool(por(peq(path, mount), pstartswith(path, mount + "/"))):
            best = mount
            break
    if best is None and "" in table:
        exp_app, exp_script, exp_path = table[""], "", path
    elif best is None:
        exp_app, exp_script, exp_path = "DEFAULT", "", path
    else:
        exp_app, exp_script, exp_path = table[best], best, path[len(best):]
    ok = pand(seen.get("app") == exp_app, peq(seen.get("script"), script_name + exp_script), peq(seen.get("path"), exp_path))
    # SCRIPT_NAME + PATH_INFO is preserved
    ok = pand(ok, peq(pconcat(seen.get("script"), seen.get("path")), pconcat(script_name, path)))
    return ok, {"app": seen.get("app"), "script": seen.get("script"), "path": seen.get("path")}


FORMS = {"free1": ("{}", 1), "free2": ("{}", 2), "escape": ("%{}", 2), "escape-then": ("%2{}", 2), "then-escape": ("{}%2f", 1), "double": ("%25{}", 2),
         # escapes of non-ASCII bytes: a complete UTF-8 sequence, a truncated one, an invalid byte
         "hi-valid": ("%C3%A9{}", 1), "hi-truncated": ("%E2%98{}", 1), "hi-truncated4": ("%F0%9F%98{}", 1), "hi-invalid": ("{}%FF", 1)}


HOSTS = {"h": "h", "idn": "www.\u2603.net", "idn-first": "b\u00fccher.example", "idn-port": "a.b.\u00e9x.fr:8080", "ipv6": "[::1]:8080", "user": "u@h", "user-ipv6": "u:p@[::1]:8080", "user-idn": "u@b\u00fccher.example:81",
         # labels the idna codec must refuse: converting may fail, it may not yield non-ASCII
         "idn-too-long": "\u2603" * 58 + ".net", "idn-empty-label": "\u2603..net"}


def body_iri_uri(I, X, comp="path", form="free1", host="h"):
    from urllib.parse import urlsplit

    from werkzeug import urls

    skel, n = FORMS[form]
    t = X.str("t", n, minlen=n, maxcp=0x7E)
    X.assume(pall_in(t, [(0x21, 0x7E)]))
    X.assume(pnone_in(t, [0x23, 0x3F, 0x5B, 0x5D, 0x40, 0x3A, 0x2F]))  # no raw delimiters in the solver part
    pre, _, post = skel.partition("{}")
    text = pconcat(pre, t, post)
    base = {"path": "http://h/a", "query": "http://h/p?q=", "fragment": "http://h/p#"}[comp]
    base = base.replace("//h/", "//" + HOSTS[host] + "/")
    x = pconcat(base, text)
    try:
        u1 = I.call(urls.iri_to_uri, (x,))
    except UnicodeError:
        # a host the IDNA codec rejects: refusing is fine (no URI was yielded)
        return host in ("idn-too-long", "idn-empty-label"), {"raised": "UnicodeError"}
    if host in ("idn-too-long", "idn-empty-label"):
        return pall_in(u1, [(0x21, 0x7E)]), {"u1": u1}
    i1 = I.call(urls.uri_to_iri, (u1,))
    u2 = I.call(urls.iri_to_uri, (i1,))
    i2 = I.call(urls.uri_to_iri, (u2,))
    ok = pand(
        peq(I.call(urls.iri_to_uri, (u1,)), u1),     # IRI -> URI is idempotent
        peq(I.call(urls.uri_to_iri, (i1,)), i1),     # URI -> IRI is idempotent
        peq(i2, i1),                                 # the round trip is a fixpoint after one step
        peq(I.call(urls.iri_to_uri, (i2,)), u2),
        pall_in(u1, [(0x21, 0x7E)]), pall_in(u2, [(0x21, 0x7E)]),   # URIs are pure ASCII without blanks
    )
    # component-specific reserved characters stay quoted: un-quoting never introduces one
    # (a '/' inside a query or fragment, or a '#' inside the fragment, has no structural meaning)
    reserved = {"path": ("/", "?", "#"), "query": ("#", "&", "=", "+"), "fragment": ()}[comp]
    for ch in reserved:
        ok = pand(ok, i1.count(ch) == x.count(ch), u2.count(ch) == x.count(ch))
    # no byte is lost or invented: fully percent-decoded, the URI and the URI of its IRI denote
    # the same bytes (invalid escapes stay quoted, they are not dropped or reinterpreted)
    from harness.c03 import punquote_to_bytes

    ok = pand(ok, peq(punquote_to_bytes(u2), punquote_to_bytes(u1)))
    # the authority (concrete here, IDN labels in normal form) is undone exactly by URI -> IRI
    # and is pure ASCII in the URI
    want = HOSTS[host]
    ok = pand(ok, peq(I.call(urlsplit, (i1,)).netloc, want))
    return ok, {"u1": u1, "i1": i1, "u2": u2}


def body_current_url(I, X, n=2, with_query=True):
    import urllib.parse

    from harness.c03 import punquote
    from werkzeug.sansio.utils import get_current_url

    p = X.str("path", n, minlen=n, maxcp=0x7E)
    X.assume(pall_in(p, [(0x20, 0x7E)]))
    X.assume(pnone_in(p, [0x2F]))
    path = pconcat("/", p)
    # known finding: a literal '%XX' in the (already decoded) path is taken for an escape
    HEX = [(0x30, 0x39), (0x41, 0x46), (0x61, 0x66)]
    lit = False
    for i in range(n - 2):
        lit = por(lit, pand(pall_in(p[i:i + 1], [0x25]), pall_in(p[i + 1:i + 3], HEX)))
    X.known("C15-current-url-literal-percent-escape", lit)
    qs = b"k=v" if with_query else b""
    url = I.call(get_current_url, ("http", "h", "/r", path, qs))
    parts = I.call(urllib.parse.urlsplit, (url,))
    got_path = punquote(parts.path)
    ok = pand(peq(parts.scheme, "http"), peq(parts.netloc, "h"), peq(got_path, pconcat("/r", path)),
              peq(parts.query, "k=v" if with_query else ""), peq(parts.fragment, ""))
    return ok, {"url": url}


def body_host_port(I, X, scheme="http", n=2, skel="{}"):
    """a host and explicit port are recovered from the reconstructed URL: the port survives
    unless it is the default port OF THAT SCHEME (then the URL carries none and the scheme
    implies it)"""
    import urllib.parse

    from symex.poly import pint
    from werkzeug.sansio.utils import get_current_url, get_host

    d = X.str("port", n, minlen=n, maxcp=0x39)
    X.assume(pall_in(d, [(0x30, 0x39)]))
    pre, _, post = skel.partition("{}")
    port = pconcat(pre, d, post)
    X.assume(pnot(peq(port[:1], "0")))
    host = I.call(get_host, (scheme, pconcat("h.example:", port), None))
    url = I.call(get_current_url, (scheme, host, "/r", "/p", b""))
    parts = I.call(urllib.parse.urlsplit, (url,))
    name, sep, ptxt = parts.netloc.partition(":")
    default = {"http": 80, "https": 443, "ws": 80, "wss": 443}[scheme]
    got_port = pint(ptxt) if plen(sep) else default
    ok = pand(peq(parts.scheme, scheme), peq(name, "h.example"), peq(got_port, pint(port)), peq(parts.path, "/r/p"))
    return ok, {"url": url}


def body_environ_path(I, X, n=2, which="PATH_INFO"):
    """the path (script root) a WSGI server hands over -- UTF-8 bytes tunnelled through latin-1,
    here n solver bytes after a fixed prefix -- is what request.path (root_path) reports:
    exactly those bytes decoded, nothing trimmed"""
    from werkzeug.wrappers import Request

    t = X.str("tail", n, minlen=n, maxcp=0xFF)
    X.assume(pall_in(t, [(0x01, 0xFF)]))
    raw = pconcat("/p", t)
    environ = {"REQUEST_METHOD": "GET", "wsgi.url_scheme": "http", "SERVER_NAME": "s", "SERVER_PORT": "80", "SCRIPT_NAME": "", "PATH_INFO": "/x",
               "QUERY_STRING": ""}
    environ[which] = raw
    req = I.call(Request, (environ,))
    got = I.getattr(req, "path" if which == "PATH_INFO" else "root_path")
    want = raw.encode("latin-1").decode("utf-8", "replace")
    if which == "SCRIPT_NAME":
        want = want.rstrip("/")
    return peq(got, want), {"got": got}


def body_environ_url(I, X, n=2, which="PATH_INFO", mode="any", lead=None):
    """URL reconstruction from a WSGI environ: wsgi.get_current_url(environ) is the URL the
    request object reports (Request.url / root_url) for the same environ, for every path /
    script root a server can hand over (UTF-8 bytes tunnelled through latin-1); for well-formed
    UTF-8 without reserved characters it is literally scheme://host + the decoded text"""
    from werkzeug import wsgi
    from werkzeug.wrappers import Request

    t = X.str("tail", n, minlen=n, maxcp=0xFF)
    X.assume(pall_in(t, [(0x01, 0xFF)]))
    if lead is not None:
        X.assume(pall_in(t[0:1], [lead]))
    raw = pconcat("/p", t)
    environ = {"REQUEST_METHOD": "GET", "wsgi.url_scheme": "http", "SERVER_NAME": "s", "SERVER_PORT": "80", "SCRIPT_NAME": "", "PATH_INFO": "/x",
               "QUERY_STRING": ""}
    environ[which] = raw
    root_only = which == "SCRIPT_NAME" and mode == "root"
    got = I.call(wsgi.get_current_url, (environ,), {"root_only": root_only})
    req = I.call(Request, (dict(environ),))
    ref = I.getattr(req, "root_url" if root_only else "url")
    ok = peq(got, ref)
    if n == 2 and bool(pand(pall_in(t[0:1], [(0xC3, 0xDF)]), pall_in(t[1:2], [(0x80, 0xBF)]))):
        # one well-formed two-byte character (U+00C0..U+07FF: letters, no reserved characters)
        ch = t.encode("latin-1").decode("utf-8", "replace")
        want = pconcat("http://s/p", ch, "/x") if which == "SCRIPT_NAME" and not root_only else pconcat("http://s/p", ch, "/" if root_only else "")
        ok = pand(ok, peq(got, want))
    return ok, {"got": got, "request": ref}


def body_query_mapping(I, X, nk=1, nv=1):
    """a query mapping given to the environ builder is recovered exactly: urls._urlencode (what
    EnvironBuilder uses for a query mapping) followed by Request.args"""
    from harness.c02 import body_urlencoded

    return body_urlencoded(I, X, nk=nk, nv=nv, repeated=True, via="args")


def make_stubs():
    from harness.c07 import make_stubs as m

    return m()


def obligations(tier, seed):
    out = []
    quick = tier == "quick"
    for comp in ("path", "query", "fragment"):
        for form in FORMS:
            if quick and form in ("free2", "double") and comp != "path":
                continue
            out.append({"name": f"iri_uri[{comp},{form}]", "body": "body_iri_uri", "params": {"comp": comp, "form": form},
                        "opts": {"budget_s": 900 if quick else 3000, "ctx": {"max_cp": 0x7E}}, "witness": form == "escape" and comp == "path"})
    for host in HOSTS:
        if host == "h":
            continue
        for comp, form in ((("path", "free1"),) if quick else (("path", "free1"), ("path", "escape"), ("query", "free1"))):
            out.append({"name": f"iri_uri[{comp},{form},host={host}]", "body": "body_iri_uri", "params": {"comp": comp, "form": form, "host": host},
                        "opts": {"budget_s": 900 if quick else 3000, "ctx": {"max_cp": 0xFFFF}}})
    for wq in (True, False):
        for n in (range(0, 3) if quick else range(0, 4)):
            if quick and n == 2 and not wq:
                continue
            out.append({"name": f"current_url[n={n},query={wq}]", "body": "body_current_url", "params": {"n": n, "with_query": wq},
                        "opts": {"budget_s": 900, "ctx": {"max_cp": 0x7E}}, "witness": n == 1 and wq})
    for which in ("PATH_INFO", "SCRIPT_NAME"):
        for n in ((1, 2) if quick else (1, 2, 3)):
            out.append({"name": f"environ_path[{which},n={n}]", "body": "body_environ_path", "params": {"n": n, "which": which},
                        "opts": {"budget_s": 900, "ctx": {"max_cp": 0xFFFF}}})
    for which, mode in (("PATH_INFO", "any"), ("SCRIPT_NAME", "any"), ("SCRIPT_NAME", "root")):
        for n in ((1,) if quick else (1, 2)):
            out.append({"name": f"environ_url[{which},{mode},n={n}]", "body": "body_environ_url", "params": {"n": n, "which": which, "mode": mode},
                        "opts": {"budget_s": 900 if quick else 3000, "ctx": {"max_cp": 0xFFFF}}})
    if quick:
        # one well-formed two-byte character (the absolute oracle): first byte fixed, second solver-chosen
        out.append({"name": "environ_url[PATH_INFO,any,n=2,lead=C3]", "body": "body_environ_url", "params": {"n": 2, "which": "PATH_INFO", "mode": "any", "lead": 0xC3},
                    "opts": {"budget_s": 900, "ctx": {"max_cp": 0xFFFF}}})
    for nk, nv in ([(1, 1), (2, 0)] if quick else [(1, 1), (2, 0), (2, 1), (1, 2)]):
        out.append({"name": f"query_mapping[k={nk},v={nv}]", "body": "body_query_mapping", "params": {"nk": nk, "nv": nv},
                    "opts": {"budget_s": 900, "ctx": {"max_cp": 0x7FF}, "stubs_from": "harness.c02"}})
    for scheme in ("http", "https", "ws", "wss"):
        for skel, ns in (("{}", [1, 2, 3]), ("4{}", [2]), ("{}0", [1])):
            for n in ns:
                out.append({"name": f"host_port[{scheme},{skel},n={n}]", "body": "body_host_port", "params": {"scheme": scheme, "n": n, "skel": skel},
                            "opts": {"budget_s": 900, "ctx": {"max_cp": 0x7E, "bv_ints": True}}})
    for ti in range(len(TABLES)):
        for sn in ("", "/root"):
            for n in (range(0, 7) if quick else range(0, 9)):
                out.append({"name": f"dispatch[table={ti},script_name={sn!r},n={n}]", "body": "body_dispatch", "params": {"ti": ti, "n": n, "script_name": sn},
                            "opts": {"budget_s": 900, "ctx": {"max_cp": 0x7E}}, "witness": n == 3 and ti == 1})
    return out
