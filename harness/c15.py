"""C15 (dispatcher clause only) -- path-dispatching middleware preserves the
concatenation of script name and path info while choosing the longest matching mount.

middleware.dispatcher.DispatcherMiddleware.__call__ is executed symbolically on a
PATH_INFO of n solver characters for enumerated mount tables over nested prefixes.
The IRI/URI and environ round-trip clauses of C15 are outside the claim (stdlib URL,
IDNA and codec code; see DESIGN.md).
"""
from __future__ import annotations

from symex.poly import pall_in, pand, pconcat, peq, plen, pnone_in, pnot, por, pstartswith

PROPERTY = "C15"
BOUNDS = {
    "quick": {"path_info": "<= 6 solver characters over '/', 'a', 'b', '.', '%' and other printable ASCII", "mount tables": 5},
    "thorough": {"path_info": "<= 8 characters"},
}
STUBS = ["mounted applications are recorders"]
ASSUMPTIONS = ["mount tables are enumerated, not solver-quantified"]
OUTSIDE = ["IRI <-> URI conversion (urlsplit, quote/unquote, IDNA, codecs)", "EnvironBuilder -> Request round trip (latin-1 tunnelling, stdlib URL code)"]

TABLES = [
    {"/a": "A"},
    {"/a": "A", "/a/b": "AB"},
    {"/a": "A", "/a/b": "AB", "/a/b/a": "ABA", "/b": "B"},
    {"/a/b": "AB", "/ab": "X"},
    {"": "ROOT", "/a": "A"},
]


def body_dispatch(I, X, ti=0, n=4, script_name=""):
    from werkzeug.middleware.dispatcher import DispatcherMiddleware

    seen = {}

    def mk(tag):
        def app(environ, start_response):
            seen["app"] = tag
            seen["script"] = environ["SCRIPT_NAME"]
            seen["path"] = environ["PATH_INFO"]
            return [b""]
        return app

    table = TABLES[ti]
    mw = DispatcherMiddleware(mk("DEFAULT"), {k: mk(v) for k, v in table.items()})
    tail = X.str("path", n, minlen=n, maxcp=0x7E)
    X.assume(pall_in(tail, [(0x21, 0x7E)]))
    path = pconcat("/", tail)
    environ = {"PATH_INFO": path, "SCRIPT_NAME": script_name}
    I.call(mw.__call__, (environ, lambda *a: None))
    # reference: the longest mount that is the path itself or a prefix of it at a segment boundary
    best = None
    for mount in sorted(table, key=len, reverse=True):
        if mount == "":
            continue
        if bool(por(peq(path, mount), pstartswith(path, mount + "/"))):
            best = mount
            break
    if best is None and "" in table:
        exp_app, exp_script, exp_path = table[""], "", path
    elif best is None:
        exp_app, exp_script, exp_path = "DEFAULT", "", path
    else:
        exp_app, exp_script, exp_path = table[best], best, path[len(best):]
    ok = pand(seen.get("app") == exp_app, peq(seen.get("script"), script_name + exp_script), peq(seen.get("path"), exp_path))
    # SCRIPT_NAME + PATH_INFO is preserved
    ok = pand(ok, peq(pconcat(seen.get("script"), seen.get("path")), pconcat(script_name, path)))
    return ok, {"app": seen.get("app"), "script": seen.get("script"), "path": seen.get("path")}


def obligations(tier, seed):
    out = []
    quick = tier == "quick"
    for ti in range(len(TABLES)):
        for sn in ("", "/root"):
            for n in (range(0, 7) if quick else range(0, 9)):
                out.append({"name": f"dispatch[table={ti},script_name={sn!r},n={n}]", "body": "body_dispatch", "params": {"ti": ti, "n": n, "script_name": sn},
                            "opts": {"budget_s": 900, "ctx": {"max_cp": 0x7E}}, "witness": n == 3 and ti == 1})
    return out
