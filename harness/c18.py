"""C18 -- context-local data never leaks between concurrent contexts (operation granularity).

local.Local (__setattr__/__getattr__/__delattr__/__iter__/__release_local__),
LocalStack (push/pop/top), LocalProxy resolution and release_local are executed from the
real source inside real contextvars contexts (copy_context().run), for every schedule of k
operations issued from two sibling contexts and a child context spawned mid-schedule;
the stored values are solver integers and every read in every context is compared, after
every step, with a reference model that holds one immutable mapping / stack per context.
"""
from __future__ import annotations

import contextvars
import itertools

from symex.poly import pand, peq, pnot

PROPERTY = "C18"
BOUNDS = {
    "quick": {"schedule": "every sequence of 4 operations over 14 context-tagged operations", "contexts": "2 siblings + a child of A spawned by an operation",
              "values": "solver ints"},
    "thorough": {"schedule": "5 operations"},
}
STUBS = ["none: real contextvars contexts (copy_context().run)"]
ASSUMPTIONS = ["operations are atomic: preemption inside an operation, real threads and asyncio scheduling are not modelled (contextvars is C)",
               "schedules are enumerated; the solver quantifies over the stored values only"]
OUTSIDE = ["thread / asyncio interleavings below operation granularity", "LocalManager.make_middleware (WSGI plumbing)", "proxy operator forwarding beyond resolution and augmented assignment"]

OPS = ["A.set", "B.set", "A.del", "B.del", "A.release", "spawnC", "C.set", "C.del", "A.push", "B.push", "A.pop", "C.push", "C.pop", "C.release"]


def body_schedule(I, X, ops=("A.set", "spawnC", "C.set")):
    from werkzeug.local import Local, LocalProxy, LocalStack, release_local

    base = contextvars.copy_context()
    loc = base.run(Local)
    stk = base.run(LocalStack)
    ctxs = {"A": base.run(contextvars.copy_context), "B": base.run(contextvars.copy_context)}
    model = {"A": {"ns": {}, "st": []}, "B": {"ns": {}, "st": []}}
    ok = True
    trace = []
    for j, op in enumerate(ops):
        if op == "spawnC":
            if "C" not in ctxs:
                ctxs["C"] = ctxs["A"].run(contextvars.copy_context)
                model["C"] = {"ns": dict(model["A"]["ns"]), "st": list(model["A"]["st"])}
            trace.append(op)
        else:
            who, what = op.split(".")
            if who not in ctxs:
                trace.append(op + "(skipped)")
            else:
                v = X.int(f"v{j}", -1000, 1000)
                cx = ctxs[who]
                m = model[who]
                exc = None
                try:
                    if what == "set":
                        cx.run(lambda: I.setattr(loc, "x", v))
                        m["ns"] = dict(m["ns"], x=v)
                    elif what == "del":
                        had = "x" in m["ns"]
                        try:
                            cx.run(lambda: I.call(loc.__delattr__, ("x",)))
                            ok = pand(ok, had)
                        except AttributeError:
                            ok = pand(ok, not had)
                        m["ns"] = {k: val for k, val in m["ns"].items() if k != "x"}
                    elif what == "release":
                        cx.run(lambda: I.call(release_local, (loc,)))
                        cx.run(lambda: I.call(release_local, (stk,)))
                        m["ns"] = {}
                        m["st"] = []
                    elif what == "push":
                        cx.run(lambda: I.call(stk.push, (v,)))
                        m["st"] = m["st"] + [v]
                    elif what == "pop":
                        got = cx.run(lambda: I.call(stk.pop, ()))
                        exp = m["st"][-1] if m["st"] else None
                        ok = pand(ok, (got is None) if exp is None else peq(got, exp))
                        m["st"] = m["st"][:-1]
                except Exception as e:  # noqa
                    exc = type(e).__name__
                    ok = False
                trace.append(op if exc is None else f"{op}!{exc}")
        # after every step: every context sees exactly its own state
        for name, cx in ctxs.items():
            m = model[name]

            def read_x():
                try:
                    return ("val", I.getattr(loc, "x"))
                except AttributeError:
                    return ("unset", None)

            kind, val = cx.run(read_x)
            ok = pand(ok, kind == ("val" if "x" in m["ns"] else "unset"))
            if kind == "val" and "x" in m["ns"]:
                ok = pand(ok, peq(val, m["ns"]["x"]))
            items = cx.run(lambda: list(I.call(loc.__iter__, ())))
            ok = pand(ok, len(items) == len(m["ns"]))
            top = cx.run(lambda: I.getattr(stk, "top"))
            ok = pand(ok, (top is None) if not m["st"] else peq(top, m["st"][-1]))

            def via_proxy():
                p = LocalProxy(loc, "x")
                try:
                    return ("val", I.call(p._get_current_object, ()))
                except RuntimeError:
                    return ("unbound", None)

            pk, pv = cx.run(via_proxy)
            ok = pand(ok, pk == ("val" if "x" in m["ns"] else "unbound"))
            if pk == "val" and "x" in m["ns"]:
                ok = pand(ok, peq(pv, m["ns"]["x"]))

            def via_stack_proxy():
                p = LocalProxy(stk)
                try:
                    return ("val", I.call(p._get_current_object, ()))
                except RuntimeError:
                    return ("unbound", None)

            sk, sv = cx.run(via_stack_proxy)
            ok = pand(ok, sk == ("val" if m["st"] else "unbound"))
            if sk == "val" and m["st"]:
                ok = pand(ok, peq(sv, m["st"][-1]))
    return ok, {"trace": trace}


def body_proxy_iop(I, X, op="__iadd__"):
    """an augmented assignment through a proxy (p += v) leaves p a late-bound proxy: afterwards
    it still resolves to each context's own value and is unbound where nothing is set"""
    from werkzeug.local import Local, LocalProxy

    base = contextvars.copy_context()
    loc = base.run(Local)
    a, b, c = (base.run(contextvars.copy_context) for _ in range(3))
    v0, v1, v2 = X.int("v0", -1000, 1000), X.int("v1", -1000, 1000), X.int("v2", 1, 1000)
    a.run(lambda: I.setattr(loc, "x", v0))
    b.run(lambda: I.setattr(loc, "x", v1))
    p = LocalProxy(loc, "x")
    p = a.run(lambda: I.call(getattr(p, op), (v2,)))
    ok = isinstance(p, LocalProxy)
    if ok:
        def read():
            try:
                return ("val", I.call(p._get_current_object, ()))
            except RuntimeError:
                return ("unbound", None)

        ka, va = a.run(read)
        kb, vb = b.run(read)
        kc, vc = c.run(read)
        ok = pand(ka == "val", kb == "val", kc == "unbound", peq(va, v0), peq(vb, v1))
    return ok, {"is_proxy": isinstance(p, LocalProxy)}


def body_proxy_unbound(I, X, custom_message=False, target="local"):
    """a proxy reports 'unbound' (falsy, empty dir(), '<LocalProxy unbound>' repr, RuntimeError
    on resolution) exactly in the contexts where nothing is bound -- whatever unbound_message
    it was given -- and resolves to the context's own value elsewhere"""
    from werkzeug.local import Local, LocalProxy, LocalStack

    base = contextvars.copy_context()
    loc = base.run(Local)
    stk = base.run(LocalStack)
    a, b = base.run(contextvars.copy_context), base.run(contextvars.copy_context)
    v0 = X.int("v0", -1000, 1000)
    X.assume(pnot(peq(v0, 0)))
    kw = {"unbound_message": "nothing here"} if custom_message else {}
    if target == "local":
        a.run(lambda: I.setattr(loc, "x", v0))
        p = LocalProxy(loc, "x", **kw)
    else:
        a.run(lambda: I.call(stk.push, (v0,)))
        p = LocalProxy(stk, **kw)

    def probe():
        try:
            cur = I.call(p._get_current_object, ())
            bound = True
        except RuntimeError:
            cur, bound = None, False
        return bound, cur, bool(p), repr(p) == "<LocalProxy unbound>", (dir(p) == []) if not bound else None

    ba, ca, ta, ra, da = a.run(probe)
    bb, cb, tb, rb, db = b.run(probe)
    ok = pand(ba, peq(ca, v0), ta, not ra, (not bb), (not tb), rb, db is True)
    return ok, {"a": [ba, ta, ra], "b": [bb, tb, rb, db]}


def body_manager_cleanup(I, X, top="none"):
    """LocalManager.cleanup() releases every managed local for the current context -- whatever is
    on top of a stack (also None / falsy values) -- and only for that context"""
    from werkzeug.local import Local, LocalManager, LocalStack

    base = contextvars.copy_context()
    loc = base.run(Local)
    stk = base.run(LocalStack)
    mgr = LocalManager([loc, stk])
    a, b = base.run(contextvars.copy_context), base.run(contextvars.copy_context)
    v0, v1 = X.int("v0", -1000, 1000), X.int("v1", -1000, 1000)
    for cx, v in ((a, v0), (b, v1)):
        cx.run(lambda: I.setattr(loc, "x", v))
        cx.run(lambda: I.call(stk.push, (v,)))
    if top == "none":
        a.run(lambda: I.call(stk.push, (None,)))
    elif top == "zero":
        a.run(lambda: I.call(stk.push, (0,)))
    a.run(lambda: I.call(mgr.cleanup, ()))
    first_pop = a.run(lambda: I.call(stk.pop, ()))
    a_top = a.run(lambda: I.getattr(stk, "top"))
    a_items = a.run(lambda: list(iter(loc)))
    b_top = b.run(lambda: I.getattr(stk, "top"))
    b_x = b.run(lambda: I.getattr(loc, "x"))
    ok = pand(first_pop is None, a_top is None, len(a_items) == 0, peq(b_top, v1), peq(b_x, v1))
    return ok, {"a_top_is_none": a_top is None, "a_items": len(a_items)}


def body_iter_snapshot(I, X, then="consume-in-sibling"):
    """iter(local) is bound to the context that called it: consuming the iterator in a sibling
    context, or after the namespace was released, yields the values it was created over"""
    from werkzeug.local import Local, release_local

    base = contextvars.copy_context()
    loc = base.run(Local)
    a, b = base.run(contextvars.copy_context), base.run(contextvars.copy_context)
    v0, v1 = X.int("v0", -1000, 1000), X.int("v1", -1000, 1000)
    a.run(lambda: I.setattr(loc, "x", v0))
    b.run(lambda: I.setattr(loc, "x", v1))
    # (the iterator protocol is driven by CPython itself here: the interpreter evaluates
    # generators eagerly and would hide a lazily evaluated __iter__)
    it = a.run(lambda: iter(loc))
    if then == "consume-in-sibling":
        got = b.run(lambda: list(it))
    else:
        a.run(lambda: I.call(release_local, (loc,)))
        got = a.run(lambda: list(it))
    ok = len(got) == 1 and got[0][0] == "x" and bool(peq(got[0][1], v0))
    return ok, {"n": len(got)}


def body_shared_proxy(I, X, how="call", order="A-then-B"):
    """one proxy object used from two contexts: it resolves, at every access, to the object
    bound in the context of that access -- also when the two contexts hold equal but distinct
    objects -- and a mutation through it lands in that context's object only"""
    from werkzeug.local import Local, LocalProxy

    base = contextvars.copy_context()
    loc = base.run(Local)
    proxy = base.run(lambda: I.call(loc.__call__, ("x",)) if how == "call" else I.call(LocalProxy, (loc, "x")))
    ca, cb = base.run(contextvars.copy_context), base.run(contextvars.copy_context)
    v, w = X.int("v", 0, 3), X.int("w", 0, 3)
    la, lb = [v], [w]
    ok = True
    ca.run(lambda: I.setattr(loc, "x", la))
    got_a = ca.run(lambda: I.call(proxy._get_current_object, ()))
    ok = pand(ok, got_a is la)
    cb.run(lambda: I.setattr(loc, "x", lb))
    first, second = (ca, la), (cb, lb)
    if order != "A-then-B":
        first, second = second, first
    for cx, want in (first, second, first):
        got = cx.run(lambda: I.call(proxy._get_current_object, ()))
        ok = pand(ok, got is want)
    cb.run(lambda: I.call(proxy._get_current_object, ()).append(9))
    ok = pand(ok, len(lb) == 2, len(la) == 1)
    return ok, {"la": la, "lb": lb}


def obligations(tier, seed):
    extra = [{"name": f"shared_proxy[{how},{order}]", "body": "body_shared_proxy", "params": {"how": how, "order": order},
              "opts": {"budget_s": 600}} for how in ("call", "ctor") for order in ("A-then-B", "B-then-A")]
    out = list(extra)
    for top in ("value", "none", "zero"):
        out.append({"name": f"manager_cleanup[top={top}]", "body": "body_manager_cleanup", "params": {"top": top},
                    "opts": {"budget_s": 300, "ctx": {"bv_ints": True}}})
    for custom in (False, True):
        for target in ("local", "stack"):
            out.append({"name": f"proxy_unbound[custom_message={custom},{target}]", "body": "body_proxy_unbound",
                        "params": {"custom_message": custom, "target": target}, "opts": {"budget_s": 300, "ctx": {"bv_ints": True}}})
    for then in ("consume-in-sibling", "consume-after-release"):
        out.append({"name": f"iter_snapshot[{then}]", "body": "body_iter_snapshot", "params": {"then": then},
                    "opts": {"budget_s": 300, "ctx": {"bv_ints": True}}})
    for op in ("__iadd__", "__isub__", "__imul__", "__ifloordiv__"):
        out.append({"name": f"proxy_iop[{op}]", "body": "body_proxy_iop", "params": {"op": op},
                    "opts": {"budget_s": 300, "ctx": {"bv_ints": True}}})
    k = 4 if tier == "quick" else 5
    for ops in itertools.product(OPS, repeat=k):
        # a child-context operation before the spawn is a no-op: skip those schedules
        spawned = False
        skip = False
        for o in ops:
            if o == "spawnC":
                spawned = True
            elif o.startswith("C.") and not spawned:
                skip = True
        if skip:
            continue
        out.append({"name": f"schedule[{'>'.join(ops)}]", "body": "body_schedule", "params": {"ops": list(ops)},
                    "opts": {"budget_s": 300, "ctx": {"bv_ints": True}}, "witness": ops[:3] == ("A.set", "spawnC", "C.set") and ops[-1] == "C.pop"})
    return out
