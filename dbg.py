"""debug helper: run one obligation in-process; usage: dbg.py C09 <name-substr> [witness]"""
import sys, importlib, traceback
sys.path.insert(0, "/verif")
from symex import explore as ex, core
from symex.interp import Interp
prop, sub = sys.argv[1], sys.argv[2]
mod = importlib.import_module(f"harness.{prop.lower()}")
obs = [o for o in mod.obligations(sys.argv[3] if len(sys.argv) > 3 else "quick", 0) if sub in o["name"]]
o = obs[0]
print("obligation", o["name"])
body = getattr(mod, o["body"])
import vlib.runner as R
opts = o.get("opts", {})
orig = traceback.format_exc
res = ex.explore(body, o.get("params", {}), name=o["name"], interp_kwargs=R._interp_kwargs(mod, opts), ctx_kwargs=opts.get("ctx", {}), max_paths=int(sys.argv[4]) if len(sys.argv) > 4 else 100000)
d = res.as_dict()
for e in d["engine_errors"][:3]:
    for k, v in e.items():
        print(k, ":", v if k != "tb" else "\n" + v)
print({k: d[k] for k in ("paths", "verified", "aborted", "validated", "queries", "solver_time", "wall")}, sorted(set(d["inconclusive"]))[:8])
print("violations", d["violations"][:2])
