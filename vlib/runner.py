"""Check runner: loads a property's harness module, farms its obligations out to worker
processes, replays known findings, writes evidence, prints VIOLATION / KNOWN-FINDING
lines and sets the exit status (0 held, 1 violation, 2 engine/harness error)."""
from __future__ import annotations

import argparse
import importlib
import json
import multiprocessing as mp
import os
import sys
import time
import traceback

ROOT = os.path.dirname(os.path.dirname(os.path.abspath(__file__)))
REPLAYS = os.environ.get("VERIF_REPLAY_DIR") or os.path.join(ROOT, "replays")
sys.path.insert(0, ROOT)

EXIT_OK, EXIT_VIOLATION, EXIT_ENGINE = 0, 1, 2


def _worker(job):
    modname, obname, params, opts, witness, active_known = job
    try:
        from symex import explore as ex

        mod = importlib.import_module(modname)
        body = getattr(mod, obname)
        res = ex.explore(
            body, params, name=opts.get("name", obname),
            max_paths=opts.get("max_paths", 50000), budget_s=opts.get("budget_s"),
            validate=opts.get("validate", True), interp_kwargs=_interp_kwargs(mod, opts),
            ctx_kwargs=opts.get("ctx", {}), active_known=active_known, witness=witness,
            stop_on_violation=True,
        )
        d = res.as_dict()
        d["witness"] = witness
        d["body"] = f"{modname}:{obname}"
        d["params"] = ex.jsonable(params)
        return d
    except BaseException as e:  # noqa
        return {"name": opts.get("name", obname), "fatal": repr(e), "tb": traceback.format_exc()[-2000:],
                "witness": witness, "body": f"{modname}:{obname}", "params": repr(params)}


def _interp_kwargs(mod, opts):
    kw = dict(opts.get("interp", {}))
    mk = getattr(mod, "make_stubs", None)
    if opts.get("stubs_from"):
        # an obligation that borrows another property's body also borrows its stub set
        mk = getattr(importlib.import_module(opts["stubs_from"]), "make_stubs", None)
    if mk is not None and "stubs" not in kw:
        kw["stubs"] = mk()
    return kw


def load_known(prop):
    p = os.path.join(ROOT, "known_findings.json")
    if not os.path.exists(p):
        return []
    data = json.load(open(p))
    return [f for f in data.get("findings", []) if f.get("property") == prop and f.get("status") == "open"]


def replay_known(entry):
    """native replay of a listed finding; True if it still violates"""
    from symex import explore as ex

    modname, obname = entry["harness"].split(":")
    mod = importlib.import_module(modname)
    body = getattr(mod, obname)
    params = ex.unjson(entry.get("params", {}))
    params = {k: v for k, v in params.items() if k != "_ctx"}
    try:
        ok, obs, X = ex.run_native(body, params, ex.unjson(entry["assignment"]))
    except Exception as e:
        return None, repr(e)
    return ok is False, obs


def main(argv=None):
    ap = argparse.ArgumentParser()
    ap.add_argument("prop")
    ap.add_argument("--tier", default=os.environ.get("VERIF_TIER", "quick"))
    ap.add_argument("--replay")
    ap.add_argument("--jobs", type=int, default=int(os.environ.get("VERIF_JOBS", "16")))
    ap.add_argument("--only", help="substring filter on obligation names (debugging)")
    ap.add_argument("--no-evidence", action="store_true")
    args = ap.parse_args(argv)
    prop = args.prop.upper()
    seed = int(os.environ.get("VERIF_SEED", "0") or 0)
    tier = "thorough" if args.tier.startswith("t") else "quick"
    modname = f"harness.{prop.lower()}"
    mod = importlib.import_module(modname)

    if args.replay:
        return do_replay(args.replay)

    t0 = time.time()
    import glob

    for f in glob.glob(os.path.join(REPLAYS, f"{prop}-*.json")):
        os.remove(f)
    known = load_known(prop)
    active = []
    known_lines = []
    for k in known:
        still, obs = replay_known(k)
        if still:
            active.append(k["id"])
            line = f"KNOWN-FINDING: property={prop} {k['id']}: {k['what']}"
            print(line, flush=True)
            known_lines.append(line)
        elif still is None:
            print(f"note: known finding {k['id']} could not be replayed: {obs}", flush=True)
        else:
            print(f"note: known finding {k['id']} no longer reproduces (not excluded)", flush=True)

    obs_list = mod.obligations(tier, seed)
    if args.only:
        obs_list = [o for o in obs_list if args.only in o["name"]]
    jobs = []
    for o in obs_list:
        opts = dict(o.get("opts", {}))
        opts["name"] = o["name"]
        jobs.append((modname, o["body"], o.get("params", {}), opts, False, tuple(active)))
        if o.get("witness", False):
            wopts = dict(opts)
            wopts["name"] = o["name"] + "#witness"
            jobs.append((modname, o["body"], o.get("params", {}), wopts, True, tuple(active)))
    extra = getattr(mod, "extra_checks", None)

    results = []
    if args.jobs <= 1 or len(jobs) <= 1:
        for j in jobs:
            results.append(_worker(j))
    else:
        ctxm = mp.get_context("fork")
        with ctxm.Pool(min(args.jobs, len(jobs))) as pool:
            for r in pool.imap_unordered(_worker, jobs, chunksize=1):
                results.append(r)
                if os.environ.get("VERIF_VERBOSE"):
                    print(f"  done {r.get('name')} paths={r.get('paths')} wall={r.get('wall', 0):.1f}s inconclusive={len(r.get('inconclusive', []))} "
                          f"viol={len(r.get('violations', []))} eng={len(r.get('engine_errors', []))}", flush=True)
    extra_results = []
    if extra is not None:
        extra_results = extra(tier, seed, tuple(active))

    return finish(prop, tier, seed, mod, results, extra_results, known_lines, t0, args)


def finish(prop, tier, seed, mod, results, extra_results, known_lines, t0, args):
    violations, engine, inconclusive = [], [], []
    paths = decisions = queries = validated = verified = 0
    solver_time = 0.0
    samples = []
    funcs = {}
    per_ob = []
    witness_fail = []
    for r in results:
        if "fatal" in r:
            engine.append({"obligation": r["name"], "what": "worker crashed", "exc": r["fatal"], "tb": r["tb"]})
            continue
        paths += r["paths"]
        decisions += r["decisions"]
        queries += r["queries"]
        solver_time += r["solver_time"]
        validated += r["validated"]
        verified += r["verified"]
        funcs.update(r["funcs"])
        for v in r["violations"]:
            v["obligation"] = r["name"]
            v["body"] = r["body"]
            violations.append(v)
        for e in r["engine_errors"]:
            e["obligation"] = r["name"]
            engine.append(e)
        for i in r["inconclusive"]:
            inconclusive.append({"obligation": r["name"], "reason": i})
        if r["witness"]:
            if not r["witness_ok"]:
                witness_fail.append(r["name"])
        for s in r["samples"][:2]:
            if len(samples) < 12:
                samples.append({"obligation": r["name"], **s})
        per_ob.append({"name": r["name"], "paths": r["paths"], "verified": r["verified"], "aborted": r["aborted"],
                       "validated": r["validated"], "queries": r["queries"], "solver_s": round(r["solver_time"], 2),
                       "wall_s": round(r["wall"], 2), "complete": r["complete"], "witness": r["witness"],
                       "witness_ok": r["witness_ok"]})
    for er in extra_results:
        # extra (lemma / crosshair) results use the same shape
        paths += er.get("paths", 0)
        decisions += er.get("decisions", 0)
        queries += er.get("queries", 0)
        solver_time += er.get("solver_time", 0.0)
        validated += er.get("validated", 0)
        verified += er.get("verified", 0)
        violations += er.get("violations", [])
        engine += er.get("engine_errors", [])
        inconclusive += er.get("inconclusive", [])
        samples += er.get("samples", [])[:3]
        per_ob.append(er.get("summary", {"name": er.get("name", "extra")}))
    for w in witness_fail:
        engine.append({"obligation": w, "what": "reachability witness not produced (vacuous harness?)"})

    os.makedirs(REPLAYS, exist_ok=True)
    vlines = []
    for i, v in enumerate(violations):
        path = os.path.join(REPLAYS, f"{prop}-{i}.json")
        with open(path, "w") as f:
            json.dump({"property": prop, **v}, f, indent=1)
        vlines.append(f"VIOLATION property={prop} replay={path}")
    wall = time.time() - t0
    n_ob = len([r for r in results if not r.get("witness")]) + len(extra_results)
    n_concl = len([r for r in results if not r.get("witness") and "fatal" not in r and r["complete"] and not r["engine_errors"]])
    n_concl += len([e for e in extra_results if e.get("complete", True)])
    status = EXIT_OK
    if violations:
        status = EXIT_VIOLATION
    elif engine:
        status = EXIT_ENGINE
    elif n_ob and n_concl == 0:
        status = EXIT_ENGINE

    if not args.no_evidence:
        ev = {
            "property_id": prop,
            "tier": tier,
            "seed": seed,
            "level": "model_checking",
            "wall_s": round(wall, 2),
            "violations": len(violations),
            "assumptions": list(getattr(mod, "ASSUMPTIONS", [])),
            "coverage": {
                "states": max(paths, 0),
                "transitions": max(decisions, 0) + max(paths, 0),
                "traces_validated_against_impl": validated,
                "samples": samples or [{"note": "no sample recorded"}],
                "paths_verified_unsat": verified,
                "obligations": n_ob,
                "obligations_conclusive": n_concl,
                "solver_queries": queries,
                "solver_seconds": round(solver_time, 2),
                "functions_encoded": funcs,
                "bounds": getattr(mod, "BOUNDS", {}).get(tier, getattr(mod, "BOUNDS", {})),
                "stubs": list(getattr(mod, "STUBS", [])),
                "outside_claim": list(getattr(mod, "OUTSIDE", [])),
                "inconclusive": inconclusive[:40],
                "engine_errors": engine[:10],
                "known_findings_hit": known_lines,
                "per_obligation_family": _families(per_ob),
                "per_obligation_slowest": sorted(per_ob, key=lambda o: -(o.get("wall_s") or 0))[:40],
                "exhaustive": False,
                "rule": "states = explored symbolic paths (each ends in a solver query path∧¬property); transitions = solver-decided branch decisions plus the one property decision (path∧¬property) that ends each path; validated = paths whose model was replayed natively with identical observation",
            },
        }
        os.makedirs(os.path.join(ROOT, "evidence"), exist_ok=True)
        with open(os.path.join(ROOT, "evidence", f"{prop}.json"), "w") as f:
            json.dump(ev, f, indent=1, default=repr)

    print(f"[{prop} {tier}] obligations={n_ob} conclusive={n_concl} paths={paths} verified={verified} validated={validated} "
          f"queries={queries} solver_s={solver_time:.1f} wall_s={wall:.1f} inconclusive={len(inconclusive)} engine_errors={len(engine)}")
    for i in inconclusive[:10]:
        print("INCONCLUSIVE", i["obligation"], "-", i["reason"])
    for e in engine[:5]:
        print("ENGINE-ERROR", json.dumps({k: (v[-700:] if isinstance(v, str) else v) for k, v in e.items()}, default=repr)[:1800])
    for l in vlines:
        print(l)
    return status


def _families(per_ob):
    fam = {}
    for o in per_ob:
        k = o.get("name", "?").split("[")[0]
        f = fam.setdefault(k, {"obligations": 0, "paths": 0, "verified": 0, "validated": 0, "queries": 0, "solver_s": 0.0, "incomplete": 0})
        f["obligations"] += 1
        for kk in ("paths", "verified", "validated", "queries"):
            f[kk] += o.get(kk, 0) or 0
        f["solver_s"] = round(f["solver_s"] + (o.get("solver_s", 0) or 0), 2)
        if o.get("complete") is False:
            f["incomplete"] += 1
    return fam


def do_replay(path):
    from symex import explore as ex

    d = json.load(open(path))
    modname, obname = d["body"].split(":")
    mod = importlib.import_module(modname)
    body = getattr(mod, obname)
    params = {k: v for k, v in ex.unjson(d.get("params", {})).items() if k != "_ctx"}
    try:
        ok, obs, X = ex.run_native_timed(body, params, ex.unjson(d["assignment"]), 3 * ex.NATIVE_HANG_S)
    except ex.NativeTimeout:
        ok, obs = False, {"non_termination": True, "native_run_exceeded_s": 3 * ex.NATIVE_HANG_S}
    except Exception as e:
        # the recorded violation was an exception the harness does not expect
        ok, obs = False, {"unexpected_exception": type(e).__name__, "msg": str(e)[:200]}
    print(json.dumps({"ok": ok, "obs": ex.jsonable(obs)}, indent=1, default=repr))
    if ok is False:
        print(f"VIOLATION property={d['property']} replay={path}")
        return EXIT_VIOLATION
    return EXIT_OK


if __name__ == "__main__":
    sys.exit(main())
