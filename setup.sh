#!/bin/sh
# Build the tooling venv for the checks, offline, from the wheelhouse only.
# Idempotent; safe to call concurrently (mkdir lock).
set -e
cd "$(dirname "$0")"
V=.venv
if [ -x "$V/bin/python" ] && "$V/bin/python" -c "import z3, werkzeug, crosshair, jsonschema" 2>/dev/null; then
  exit 0
fi
while ! mkdir .venv.lock 2>/dev/null; do sleep 1; done
trap 'rmdir .venv.lock' EXIT
if [ -x "$V/bin/python" ] && "$V/bin/python" -c "import z3, werkzeug, crosshair, jsonschema" 2>/dev/null; then
  exit 0
fi
rm -rf "$V"
/venv/bin/python -m venv "$V"
SP=$("$V/bin/python" -c "import sysconfig; print(sysconfig.get_paths()['purelib'])")
printf '%s\n%s\n' "/venv/lib/python3.12/site-packages" "/repo/src" > "$SP/verif_overlay.pth"
PIP_NO_INDEX=1 "$V/bin/python" -m pip install -q --no-index --find-links /opt/veriftools/wheels z3-solver crosshair-tool jsonschema >/dev/null
"$V/bin/python" -c "import z3, werkzeug, crosshair, jsonschema; print('verif venv ready', z3.get_version_string(), werkzeug.__file__)"
