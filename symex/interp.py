"""symex.interp -- AST interpreter for the Python subset werkzeug's kernels use.

The source of every interpreted function is fetched with inspect.getsource from the
function object the installed /repo/src package exposes, on every run.  Concrete
sub-computations run natively in CPython; symbolic leaves (SInt/SBool/SSeq) flow
through primitive models; branches fork through core.Ctx.
"""
from __future__ import annotations

import ast
import builtins
import hashlib
import inspect
import operator
import re
import textwrap
import types

import z3

from . import core, fmt, rx
from .core import BoundExceeded, SBool, SInt, Unsupported, ctx, mk_bool, mk_int, sand, snot, sor, zi
from .seq import SSeq, lift
from .symdict import SymDict, SymSet, sym_key


_NOHIT = object()


class _Return(BaseException):
    def __init__(self, v):
        self.v = v


class _Break(BaseException):
    pass


class _Continue(BaseException):
    pass


_src_cache = {}
GENERATED = {}  # id(code object) -> (code object, FunctionDef node) for run-time generated functions


def register_generated(module_ast, code):
    """remember the AST a run-time `compile()` call was given, per function code object"""
    import types as _t

    defs = {n.name: n for n in module_ast.body if isinstance(n, ast.FunctionDef)}
    for const in code.co_consts:
        if isinstance(const, _t.CodeType) and const.co_name in defs:
            GENERATED[id(const)] = (const, defs[const.co_name])


class StaleSource(RuntimeError):
    """a source file was modified after the running process imported it: line numbers of the
    live code objects no longer point at their definitions (reported as an engine error --
    the run has to be repeated on a quiescent tree)"""


_PROC_START = __import__("time").time()


def _check_fresh(code):
    import os

    fn = code.co_filename
    try:
        if fn.endswith(".py") and os.path.getmtime(fn) > _PROC_START:
            raise StaleSource(f"{fn} was modified while the check was running")
    except OSError:
        pass


def func_ast(f):
    code = f.__code__
    gen = GENERATED.get(id(code))
    if gen is not None and gen[0] is code:
        return gen[1]
    k = (code.co_filename, code.co_firstlineno, code.co_name)
    if k not in _src_cache:
        try:
            # from the code object: inspect.getsource(function) would follow __wrapped__
            src = textwrap.dedent(inspect.getsource(f.__code__))
        except (OSError, TypeError):
            src = _frozen_source(f)
        _check_fresh(code)
        tree = ast.parse(src)
        node = tree.body[0]
        if isinstance(node, ast.FunctionDef) and code.co_name not in ("<lambda>", node.name):
            raise StaleSource(f"{code.co_filename}:{code.co_firstlineno}: expected def {code.co_name}, found def {node.name} "
                              "(the source file changed after it was imported)")
        if isinstance(node, ast.Expr) or not isinstance(node, (ast.FunctionDef, ast.Lambda)):
            # lambda assigned in an expression etc.
            lam = [n for n in ast.walk(tree) if isinstance(n, ast.Lambda)]
            if isinstance(node, ast.FunctionDef):
                pass
            elif len(lam) == 1:
                node = ast.FunctionDef(
                    name="<lambda>", args=lam[0].args, body=[ast.Return(value=lam[0].body)],
                    decorator_list=[], returns=None,
                )
            else:
                raise OSError("cannot isolate lambda source")
        _src_cache[k] = (node, hashlib.sha256(src.encode()).hexdigest()[:16])
    return _src_cache[k][0]


_file_trees = {}


def _frozen_source(f):
    """source of a function from a frozen stdlib module (co_filename '<frozen x>')"""
    import sys

    mod = sys.modules.get(f.__module__)
    path = getattr(mod, "__file__", None)
    if not path or not path.endswith(".py"):
        raise OSError("no source")
    if path not in _file_trees:
        text = open(path).read()
        _file_trees[path] = (text, ast.parse(text))
    text, tree = _file_trees[path]
    for node in ast.walk(tree):
        if isinstance(node, ast.FunctionDef) and node.name == f.__name__:
            first = min([node.lineno] + [d.lineno for d in node.decorator_list])
            if first == f.__code__.co_firstlineno:
                return textwrap.dedent(ast.get_source_segment(text, node, padded=True))
    raise OSError("function not found in module file")


def is_sym(x):
    return isinstance(x, (SInt, SBool, SSeq, core.SReal))


_LIST_ITER = type(iter([]))
_TUPLE_ITER = type(iter(()))


def has_sym(x, depth=3):
    if is_sym(x):
        return True
    if type(x) in (_LIST_ITER, _TUPLE_ITER):
        try:
            red = x.__reduce__()
            return has_sym(red[1][0], depth)
        except Exception:
            return False
    if isinstance(x, SymDict):
        return x.has_sym_keys() or (depth > 0 and any(has_sym(v, depth - 1) for v in x.values()))
    if isinstance(x, SymSet):
        return any(sym_key(k) for k in x)
    if depth and isinstance(x, (list, tuple)):
        return any(has_sym(y, depth - 1) for y in x)
    if depth and type(x) is dict:
        return any(has_sym(y, depth - 1) for y in x.values())
    if depth and getattr(type(x), "__symex_carrier__", False):
        # harness-side stand-in for an opaque value that carries solver data
        return any(has_sym(y, depth - 1) for y in vars(x).values())
    return False


class Closure:
    def __init__(self, node, env, interp, name):
        self.node, self.env, self.interp, self.__name__ = node, env, interp, name
        self.__qualname__ = name
        self.is_gen = any(isinstance(n, (ast.Yield, ast.YieldFrom)) for n in _own_nodes(node))

    def __call__(self, *a, **kw):
        return self.interp.run_def(self.node, self.env, a, kw, None, self.is_gen)

    def __get__(self, obj, objtype=None):
        if obj is None:
            return self
        return types.MethodType(self, obj)


def _own_nodes(fnode):
    """nodes of a function body, not descending into nested defs/lambdas"""
    stack = list(fnode.body)
    while stack:
        n = stack.pop()
        yield n
        for ch in ast.iter_child_nodes(n):
            if isinstance(ch, (ast.FunctionDef, ast.AsyncFunctionDef, ast.Lambda, ast.ClassDef)):
                continue
            stack.append(ch)


class Env:
    __slots__ = ("vars", "globs", "parent", "nonlocals", "globals_decl", "yields", "klass", "selfobj", "is_func", "mangle")

    def __init__(self, globs, parent=None):
        self.vars = {}
        self.globs = globs
        self.parent = parent
        self.nonlocals = set()
        self.globals_decl = set()
        self.yields = None
        self.klass = None
        self.selfobj = None
        self.is_func = False
        self.mangle = None

    def lookup(self, name):
        e = self
        while e is not None:
            if name in e.vars:
                return e.vars[name]
            e = e.parent
        if name in self.globs:
            return self.globs[name]
        if hasattr(builtins, name):
            return getattr(builtins, name)
        raise NameError(name)

    def store(self, name, v):
        if name in self.nonlocals:
            e = self.parent
            while e is not None:
                if name in e.vars:
                    e.vars[name] = v
                    return
                e = e.parent
            raise NameError(name)
        if name in self.globals_decl:
            self.globs[name] = v
            return
        self.vars[name] = v

    def mangled(self, name):
        """private-name mangling inside class bodies: __x -> _Class__x"""
        if name.startswith("__") and not name.endswith("__"):
            e = self
            while e is not None:
                if e.mangle:
                    return "_" + e.mangle.lstrip("_") + name
                e = e.parent
        return name

    def find_class(self):
        e = self
        while e is not None:
            if e.klass is not None:
                return e.klass
            e = e.parent
        return None


def truth(v):
    return bool(v)


BINOPS = {
    ast.Add: operator.add, ast.Sub: operator.sub, ast.Mult: operator.mul,
    ast.FloorDiv: operator.floordiv, ast.Mod: operator.mod, ast.BitOr: operator.or_,
    ast.BitAnd: operator.and_, ast.Div: operator.truediv, ast.Pow: operator.pow,
    ast.LShift: operator.lshift, ast.RShift: operator.rshift, ast.BitXor: operator.xor,
    ast.MatMult: operator.matmul,
}
IBINOPS = {
    ast.Add: operator.iadd, ast.Sub: operator.isub, ast.Mult: operator.imul,
    ast.BitOr: operator.ior, ast.BitAnd: operator.iand,
}
BIN_DUNDER = {
    ast.Add: ("__add__", "__radd__"), ast.Sub: ("__sub__", "__rsub__"), ast.BitOr: ("__or__", "__ror__"),
    ast.BitAnd: ("__and__", "__rand__"), ast.Mult: ("__mul__", "__rmul__"), ast.Mod: ("__mod__", "__rmod__"),
}
CMPOPS = {
    ast.Eq: operator.eq, ast.NotEq: operator.ne, ast.Lt: operator.lt, ast.LtE: operator.le,
    ast.Gt: operator.gt, ast.GtE: operator.ge,
}
CMP_DUNDER = {ast.Eq: "__eq__", ast.NotEq: "__ne__", ast.Lt: "__lt__", ast.LtE: "__le__", ast.Gt: "__gt__", ast.GtE: "__ge__"}


def s_eq(a, b):
    """a == b that never calls hash and returns bool/SBool"""
    if is_sym(a) or is_sym(b):
        if isinstance(a, (str, bytes, bytearray)) and isinstance(b, SSeq):
            return b.__eq__(a)
        r = a.__eq__(b) if is_sym(a) else b.__eq__(a)
        if r is NotImplemented:
            return False
        return r
    if isinstance(a, (tuple, list)) and isinstance(b, (tuple, list)) and type(a) is type(b) and (has_sym(a) or has_sym(b)):
        if len(a) != len(b):
            return False
        return sand(*[s_eq(x, y) for x, y in zip(a, b)])
    return a == b


def s_contains(container, item):
    if isinstance(container, SSeq):
        return container.contains(item)
    if isinstance(container, (SymDict, SymSet)):
        return container.s_contains(item)
    if isinstance(container, (str, bytes, bytearray)) and is_sym(item):
        return lift(container if not isinstance(container, bytearray) else bytes(container)).contains(item)
    if is_sym(item) or (isinstance(item, tuple) and has_sym(item)):
        if isinstance(container, (dict, set, frozenset, list, tuple)) or hasattr(container, "__iter__"):
            its = list(container)
            return sor(*[s_eq(item, x) for x in its])
    if isinstance(container, (list, tuple)) and has_sym(container):
        return sor(*[s_eq(item, x) for x in container])
    return item in container


# --------------------------------------------------------------------- primitives


def _types_of(t):
    return t if isinstance(t, tuple) else (t,)


def p_isinstance(I, x, t):
    if isinstance(x, SSeq):
        real = {"str": str, "bytes": bytes, "bytearray": bytearray}[x.kind]
        return any(tt is not None and isinstance(tt, type) and issubclass(real, tt) for tt in _flatten_types(t))
    if isinstance(x, SInt):
        return any(isinstance(tt, type) and issubclass(int, tt) for tt in _flatten_types(t))
    if isinstance(x, SBool):
        return any(isinstance(tt, type) and issubclass(bool, tt) for tt in _flatten_types(t))
    return isinstance(x, t)


def _flatten_types(t):
    if isinstance(t, tuple):
        for x in t:
            yield from _flatten_types(x)
    elif isinstance(t, types.UnionType):
        yield from t.__args__
    else:
        yield t


def p_type(I, x, *rest):
    if rest:
        return type(x, *rest)
    if isinstance(x, SSeq):
        return {"str": str, "bytes": bytes, "bytearray": bytearray}[x.kind]
    if isinstance(x, SInt):
        return int
    if isinstance(x, SBool):
        return bool
    return type(x)


def p_len(I, x):
    if isinstance(x, SSeq):
        return x.slen()
    f = I.dunder(x, "__len__")
    if f is not None:
        return I.call(f, (x,), {})
    sh = I.shadow(x)
    if sh is not None:
        return len(sh)
    return len(x)


def p_bytes(I, x=b"", *a):
    if isinstance(x, SSeq):
        if x.kind == "str":
            return x.encode(*a)
        return x.freeze()
    if isinstance(x, SInt):
        k = ctx().concretize(x.e)
        return bytes(k)
    if isinstance(x, (list, tuple)) and has_sym(x):
        from .seq import _int_to_bv, WB

        return SSeq("bytes", [_int_to_bv(v, WB) for v in x], len(x))
    return bytes(x, *a)


def p_bytearray(I, x=b"", *a):
    if isinstance(x, SSeq):
        return x.thaw()
    if isinstance(x, SInt):
        c = ctx()
        if c.fork_indices:
            return bytearray(c.concretize(x.e))
        cap = getattr(c, "buf_cap", 8)
        c.assume(x >= 0)
        if not c.decide(x.e <= cap):
            raise BoundExceeded("bytearray size")
        from .seq import bvv

        return SSeq("bytearray", [bvv(0)] * cap, x.e)
    v = bytearray(x, *a)
    if core.active() and len(v) <= 4096:
        # mutable buffers created by interpreted code may later receive symbolic data
        return SSeq.const(v)
    return v


def p_str(I, x="", *a):
    if a and isinstance(x, SSeq):
        return x.decode(*a)
    if is_sym(x):
        return fmt.to_str(x)
    if getattr(type(x), "__symex_carrier__", False):
        return type(x).__str__(x)
    f = I.dunder(x, "__str__")
    if f is not None and not isinstance(x, BaseException):
        return I.call(f, (x,), {})
    return str(x, *a)


def p_int(I, x=0, *a, **kw):
    if isinstance(x, SSeq):
        return fmt.seq_to_int(x, *a, **kw)
    if isinstance(x, SInt):
        return x
    if isinstance(x, SBool):
        return mk_int(zi(x))
    return int(x, *a, **kw)


def p_float(I, x=0.0):
    if isinstance(x, SSeq):
        return fmt.seq_to_float(x)
    if isinstance(x, core.SReal):
        return x
    if isinstance(x, (SInt, SBool)):
        return core.SReal(z3.ToReal(zi(x)))
    return float(x)


def p_bool(I, x=False):
    if isinstance(x, SBool):
        return x
    if isinstance(x, SInt):
        return x != 0
    if isinstance(x, SSeq):
        return x.slen() > 0
    return I.truth(x)


def p_min(I, *a, **kw):
    vals = a if len(a) > 1 else tuple(a[0])
    if any(isinstance(x, (SInt, SBool)) for x in vals) and not kw:
        return core.smin(*vals)
    return min(*a, **kw)


def p_max(I, *a, **kw):
    vals = a if len(a) > 1 else tuple(a[0])
    if any(isinstance(x, (SInt, SBool)) for x in vals) and not kw:
        return core.smax(*vals)
    return max(*a, **kw)


def p_abs(I, x):
    return abs(x)


def p_sum(I, it, start=0):
    r = start
    for x in it:
        r = r + x
    return r


def p_ord(I, x):
    if isinstance(x, SSeq):
        if x.clen() != 1:
            raise TypeError("ord() expected a character")
        return core.mk_int_bv(x.elems[0])
    return ord(x)


def p_chr(I, x):
    if isinstance(x, SInt):
        from .seq import WS

        if not bool(sand(x >= 0, x < 0x110000)):
            raise ValueError("chr() arg not in range(0x110000)")
        return SSeq("str", [x.low_bits(WS)], 1)
    return chr(x)


def p_repr(I, x):
    if is_sym(x):
        raise Unsupported("repr() of symbolic value")
    return repr(x)


class SymHash:
    """hash() of a value that holds solver data: an opaque token that is equal to another
    token exactly when the hashed values are equal as (frozen)sets / tuples / texts.  Only the
    contract 'equal values hash equal, hash is a function of the value' is modelled;
    collisions between unequal values are ignored (a violation that rests on one would not
    replay natively)."""

    __symex_carrier__ = True

    def __init__(self, kind, content):
        self.kind, self.content = kind, content

    def __eq__(self, other):
        if not isinstance(other, SymHash):
            raise Unsupported("comparison of a symbolic hash with a concrete one")
        if self.kind != other.kind:
            return False
        if self.kind == "set":
            a, b = self.content, other.content
            return len(a) == len(b) and all(b.s_contains(x) for x in a)
        return s_eq(self.content, other.content)

    def __ne__(self, other):
        return snot(self.__eq__(other))

    __hash__ = None


def p_hash(I, x):
    if isinstance(x, SymSet):
        return SymHash("set", x)
    if isinstance(x, tuple) and has_sym(x):
        return SymHash("tuple", x)
    if isinstance(x, SSeq):
        return SymHash("seq", x)
    if is_sym(x):
        raise Unsupported("hash() of symbolic value")
    f = I.dunder(x, "__hash__")
    if f is not None:
        return I.call(f, (x,), {})
    return hash(x)


def p_any(I, it):
    for x in it:
        if I.truth(x):
            return True
    return False


def p_all(I, it):
    for x in it:
        if not I.truth(x):
            return False
    return True


def p_sorted(I, it, key=None, reverse=False):
    items = list(it)
    return sorted(items, key=key, reverse=reverse)


def p_dict(I, *a, **kw):
    d = SymDict()
    if a:
        src = a[0]
        if isinstance(src, SymDict):
            for k, v in src.s_items():
                d.s_set(k, v)
        elif isinstance(src, dict) and I.shadow(src) is not None and type(src).__iter__ is dict.__iter__:
            # dict(dict-subclass instance): CPython copies the underlying table (here: the shadow)
            for k, v in I.shadow(src).s_items():
                d.s_set(k, v)
        elif hasattr(src, "keys"):
            for k in src.keys():
                d.s_set(k, src[k])
        else:
            for k, v in src:
                d.s_set(k, v)
    for k, v in kw.items():
        d.s_set(k, v)
    return d


def p_list(I, it=()):
    f = I.dunder(it, "__iter__")
    if f is not None:
        return list(I.call(f, (it,), {}))
    return list(it)


def p_tuple(I, it=()):
    return tuple(p_list(I, it))


def p_iter(I, it, *a):
    f = I.dunder(it, "__iter__")
    if f is not None and not a:
        return iter(I.call(f, (it,), {}))
    return iter(it, *a)


def p_format(I, v, spec=""):
    if is_sym(v):
        if spec:
            raise Unsupported("format spec on symbolic")
        return fmt.to_str(v)
    return format(v, spec)


def p_divmod(I, a, b):
    return (a // b, a % b)


def p_map(I, f, *its):
    return iter([I.call(f, args) for args in zip(*[I.iterate(it) for it in its])])


def p_filter(I, f, it):
    if f is None:
        return iter([x for x in I.iterate(it) if I.truth(x)])
    return iter([x for x in I.iterate(it) if I.truth(I.call(f, (x,)))])


def p_enumerate(I, it, start=0):
    return enumerate(I.iterate(it), start)


def p_zip(I, *its, **kw):
    return zip(*[I.iterate(it) for it in its], **kw)


def p_reversed(I, it):
    f = I.dunder(it, "__reversed__")
    if f is not None:
        return I.call(f, (it,))
    if isinstance(it, SSeq):
        return iter(list(it)[::-1])
    return reversed(it)


def p_range(I, *a):
    return range(*[ctx().concretize(zi(x)) if isinstance(x, (SInt, SBool)) else x for x in a])


def p_slice(I, *a):
    return slice(*a)


def p_set(I, it=()):
    items = list(I.iterate(it))
    if has_sym(items) or core.active():
        # sets built by interpreted code may later receive symbolic members
        return SymSet(items)
    return set(items)


def p_frozenset(I, it=()):
    items = list(I.iterate(it))
    if has_sym(items):
        return SymSet(items, frozen=True)
    return frozenset(items)


PRIMS = {
    map: p_map, filter: p_filter, enumerate: p_enumerate, zip: p_zip, reversed: p_reversed, range: p_range,
    slice: p_slice, set: p_set, frozenset: p_frozenset,
    len: p_len, bytes: p_bytes, bytearray: p_bytearray, isinstance: p_isinstance,
    min: p_min, max: p_max, bool: p_bool, str: p_str, int: p_int, float: p_float, abs: p_abs,
    sum: p_sum, ord: p_ord, chr: p_chr, repr: p_repr, hash: p_hash, any: p_any, all: p_all,
    type: p_type, sorted: p_sorted, dict: p_dict, list: p_list, tuple: p_tuple, iter: p_iter,
    format: p_format, divmod: p_divmod,
}

# re module-level functions: (compile pattern natively, dispatch on subject)
_RE_FUNCS = {re.search: "search", re.match: "match", re.fullmatch: "fullmatch", re.sub: "sub",
             re.split: "split", re.findall: "findall", re.finditer: "finditer"}

SAFE_NATIVE_TYPES = (list, tuple)


class Interp:
    def __init__(self, prefixes=("werkzeug",), native=(), stubs=None, follow_symbolic=True):
        self.prefixes = tuple(prefixes)
        self.native = set(native)
        self.stubs = dict(stubs or {})
        self.funcs_seen = {}
        self.follow_symbolic = follow_symbolic
        self.depth = 0
        self.stack = []
        self.native_mode = False

    # ------------------------------------------------------------ helpers
    def in_prefix(self, f):
        mod = getattr(f, "__module__", "") or ""
        return any(mod == p or mod.startswith(p + ".") for p in self.prefixes)

    def interpretable(self, f):
        if not isinstance(f, types.FunctionType):
            return False
        if f in self.native:
            return False
        if f.__code__.co_flags & (inspect.CO_COROUTINE | inspect.CO_ASYNC_GENERATOR):
            return False
        try:
            func_ast(f)
        except (OSError, TypeError, IndexError, SyntaxError):
            return False
        return True

    NEVER = ("symex", "harness", "z3", "vlib")

    def should_interpret(self, f, args=(), kwargs=None):
        if not isinstance(f, types.FunctionType):
            return False
        mod = getattr(f, "__module__", "") or ""
        if mod.split(".")[0] in self.NEVER:
            return False
        if self.in_prefix(f):
            return self.interpretable(f)
        if self.follow_symbolic and (has_sym(args) or (kwargs and has_sym(tuple(kwargs.values())))):
            return self.interpretable(f)
        return False

    def dunder(self, obj, name):
        """Python-level special method of obj's type that should be interpreted"""
        if is_sym(obj) or isinstance(obj, (SymDict, SymSet, Closure, type)) or obj is None:
            return None
        t = type(obj)
        if t.__module__ == "builtins":
            return None
        for klass in t.__mro__:
            d = klass.__dict__.get(name)
            if d is not None:
                if isinstance(d, types.FunctionType) and self.in_prefix(d) and self.interpretable(d):
                    return d
                return None
        return None

    def truth(self, v):
        if is_sym(v) or isinstance(v, (bool, int, str, bytes, type(None))):
            return bool(v)
        f = self.dunder(v, "__bool__")
        if f is not None:
            return bool(self.call(f, (v,), {}))
        f = self.dunder(v, "__len__")
        if f is not None:
            return bool(self.call(f, (v,), {}) != 0)
        sh = self.shadow(v)
        if sh is not None:
            return bool(sh)
        return bool(v)

    # -------------------------------------------------------------- calls
    def call(self, f, args=(), kwargs=None):
        kwargs = kwargs or {}
        args = tuple(args)
        if self.native_mode:
            return f(*args, **kwargs)
        try:
            st = self.stubs.get(f)
        except TypeError:
            st = None
        if st is not None:
            return st(self, *args, **kwargs)
        if isinstance(f, types.MethodType):
            fn = f.__func__
            try:
                st = self.stubs.get(fn)
            except TypeError:
                st = None
            if st is not None:
                return st(self, f.__self__, *args, **kwargs)
            return self.call(fn, (f.__self__,) + args, kwargs)
        if isinstance(f, Closure):
            return f(*args, **kwargs)
        if self.stubs and isinstance(f, types.BuiltinMethodType):
            recv = getattr(f, "__self__", None)
            if recv is not None and not isinstance(recv, types.ModuleType):
                for klass in type(recv).__mro__:
                    d = klass.__dict__.get(f.__name__)
                    if d is not None:
                        try:
                            st = self.stubs.get(d)
                        except TypeError:
                            st = None
                        if st is not None:
                            return st(self, recv, *args, **kwargs)
                        break
        if isinstance(f, types.FunctionType):
            if self.should_interpret(f, args, kwargs):
                return self.run_function(f, args, kwargs)
            mod0 = (getattr(f, "__module__", "") or "").split(".")[0]
            if mod0 not in self.NEVER and f not in self.native and (has_sym(args) or (kwargs and has_sym(tuple(kwargs.values())))):
                raise Unsupported(f"python function {getattr(f, '__qualname__', f)} has no retrievable source and got a symbolic argument")
            return self.call_native(f, args, kwargs)
        if isinstance(f, (staticmethod, classmethod)):
            return self.call(f.__func__, args, kwargs)
        try:
            prim = PRIMS.get(f)
        except TypeError:
            prim = None
        if prim is not None:
            return prim(self, *args, **kwargs)
        try:
            rname = _RE_FUNCS.get(f)
        except TypeError:
            rname = None
        if rname is not None:
            return self.re_module_call(f, rname, args, kwargs)
        if isinstance(f, type):
            return self.construct(f, args, kwargs)
        if isinstance(f, (types.BuiltinFunctionType, types.BuiltinMethodType, types.MethodWrapperType, types.MethodDescriptorType, types.WrapperDescriptorType)):
            return self.call_builtin(f, args, kwargs)
        # other callables (functools.partial, objects with __call__)
        cf = self.dunder(f, "__call__")
        if cf is not None:
            return self.call(cf, (f,) + args, kwargs)
        return self.call_native(f, args, kwargs)

    def call_native(self, f, args, kwargs):
        """call into CPython; a TypeError/AttributeError caused by handing a proxy to
        code that cannot take one is an engine limitation, not program behaviour"""
        if not (has_sym(args, 3) or (kwargs and has_sym(tuple(kwargs.values()), 3))):
            return f(*args, **kwargs)
        try:
            return f(*args, **kwargs)
        except (TypeError, AttributeError) as e:
            msg = str(e)
            if "SSeq" in msg or "SInt" in msg or "SBool" in msg or "SymDict" in msg or "SymSet" in msg:
                raise Unsupported(f"native call {getattr(f, '__qualname__', f)} cannot take a symbolic value: {msg}")
            raise

    def re_module_call(self, f, rname, args, kwargs):
        subj_i = {"sub": 2}.get(rname, 1)
        allargs = list(args)
        subj = allargs[subj_i] if len(allargs) > subj_i else kwargs.get("string")
        if not is_sym(subj) and not has_sym(allargs):
            return f(*args, **kwargs)
        flags = kwargs.pop("flags", 0)
        pat = re.compile(allargs[0], flags)
        return rx.METHODS[rname](pat, *[self.wrap_callable(a) for a in allargs[1:]], **kwargs)

    def call_builtin(self, f, args, kwargs):
        recv = getattr(f, "__self__", None)
        if isinstance(recv, dict) and not isinstance(recv, SymDict) and self.shadow(recv) is not None:
            return self.dict_native(recv, f.__name__, args, kwargs, f)
        if isinstance(f, (types.MethodDescriptorType, types.WrapperDescriptorType)) and getattr(f, "__objclass__", None) is dict \
                and args and isinstance(args[0], dict) and not isinstance(args[0], SymDict) and self.shadow(args[0]) is not None:
            return self.dict_native(args[0], f.__name__, args[1:], kwargs, lambda *a, **k: f(args[0], *a, **k))
        if not has_sym(args) and not (kwargs and has_sym(tuple(kwargs.values()))):
            if isinstance(recv, SymDict) or not isinstance(recv, (dict,)):
                return f(*args, **kwargs)
            return f(*args, **kwargs)
        # symbolic argument to a C-level callable
        if isinstance(recv, (list,)) or type(recv).__name__ in ("deque",):
            return f(*args, **kwargs)
        if isinstance(recv, (str, bytes, bytearray)) and not isinstance(recv, type):
            return getattr(lift(recv), f.__name__)(*args, **kwargs)
        if isinstance(recv, re.Pattern):
            return self.pattern_call(recv, f.__name__, args, kwargs)
        if isinstance(recv, (SymDict, SymSet)):
            return f(*args, **kwargs)
        if isinstance(recv, (dict, set, frozenset)) and not isinstance(recv, SymDict):
            return self.dict_native(recv, f.__name__, args, kwargs, f)
        if getattr(f, "__name__", "") in ("__setattr__", "__delattr__", "__getattribute__", "__init__", "__new__", "__init_subclass__", "__eq__", "__ne__", "__repr__") \
                and not isinstance(recv, (str, bytes, bytearray, dict, set, frozenset)) and recv is not None:
            return self.call_native(f, args, kwargs)
        import contextvars as _cv
        import io as _io

        if isinstance(recv, (_cv.ContextVar, _cv.Context)):
            return f(*args, **kwargs)  # storage only: the payload is never inspected
        if isinstance(recv, _io.IOBase) and all(isinstance(a, (int, SInt, SBool)) or not is_sym(a) for a in args):
            # C-level file objects take ints through __index__ (which forks the value)
            return self.call_native(f, args, kwargs)
        if isinstance(f, (types.MethodDescriptorType, types.WrapperDescriptorType)) and isinstance(getattr(f, "__objclass__", None), type) \
                and issubclass(f.__objclass__, BaseException):
            return f(*args, **kwargs)  # exception constructors only store their arguments
        if isinstance(f, (types.MethodDescriptorType, types.WrapperDescriptorType)) and f.__objclass__ in (dict, set, frozenset) and args \
                and isinstance(args[0], f.__objclass__):
            # unbound C-level container method: dict.setdefault(self, key, default)
            return self.dict_native(args[0], f.__name__, args[1:], kwargs, lambda *a, **k: f(args[0], *a, **k))
        if getattr(f, "__module__", None) == "_operator" and all(isinstance(a, (SInt, SBool, core.SReal, int, float, bool)) for a in args):
            # operator.add / iadd / ... on numeric proxies: plain dunder dispatch
            return f(*args, **kwargs)
        if recv is None or isinstance(recv, types.ModuleType):
            nm = getattr(f, "__name__", "")
            if f in (builtins.print, builtins.id, builtins.enumerate, builtins.zip, builtins.reversed, builtins.next, builtins.getattr, builtins.setattr, builtins.hasattr, builtins.callable, builtins.map, builtins.filter):
                return f(*args, **kwargs)
            raise Unsupported(f"native function {nm} called with a symbolic argument")
        # unbound method descriptors: str.join(sep, items), dict.__setitem__(self, k, v) ...
        if isinstance(f, (types.MethodDescriptorType, types.WrapperDescriptorType)):
            owner = f.__objclass__
            if owner in (str, bytes, bytearray) and args:
                return getattr(lift(args[0]), f.__name__)(*args[1:], **kwargs)
            if owner in (list, tuple, object):
                return f(*args, **kwargs)
            if owner in (dict, set, frozenset) and args:
                return self.dict_native(args[0], f.__name__, args[1:], kwargs, lambda *a, **k: f(args[0], *a, **k))
        raise Unsupported(f"native method {getattr(f, '__qualname__', f)} of {type(recv).__name__} with a symbolic argument")

    # ---- shadows: dict-subclass instances that had to take symbolic keys --------
    def shadow(self, obj):
        if not core.active() or not isinstance(obj, dict) or isinstance(obj, SymDict):
            return None
        tab = getattr(ctx(), "shadows", None)
        if not tab:
            return None
        ent = tab.get(id(obj))
        return ent[1] if ent is not None and ent[0] is obj else None

    def make_shadow(self, obj):
        c = ctx()
        tab = getattr(c, "shadows", None)
        if tab is None:
            tab = c.shadows = {}
        sh = SymDict()
        for k, v in dict.items(obj):
            sh.s_set(k, v)
        tab[id(obj)] = (obj, sh)
        return sh

    def dict_items(self, obj):
        """items of a mapping as seen by interpreted code (shadow-aware)"""
        sh = self.shadow(obj)
        if sh is not None:
            return sh.s_items()
        if isinstance(obj, SymDict):
            return obj.s_items()
        return list(dict.items(obj))

    def dict_native(self, recv, nm, args, kwargs, native):
        """a C-level dict/set method on a native container, some argument symbolic"""
        if isinstance(recv, dict) and nm in ("__init__", "update", "__ior__"):
            # one-shot iterators of pairs are materialised so that their keys can be inspected
            args = tuple(list(a) if type(a) in (_LIST_ITER, _TUPLE_ITER) or isinstance(a, types.GeneratorType) else a for a in args)
        if isinstance(recv, dict):
            sh = self.shadow(recv)
            if sh is None:
                needs = False
                if nm in ("__init__", "update", "__ior__"):
                    for a in args:
                        if isinstance(a, SymDict) and a.has_sym_keys():
                            needs = True
                        elif isinstance(a, (list, tuple)) and any(sym_key(x[0]) for x in a if isinstance(x, (list, tuple)) and x):
                            needs = True
                elif args and sym_key(args[0]) and nm in ("__setitem__", "setdefault"):
                    needs = True
                if needs:
                    sh = self.make_shadow(recv)
            if sh is None and nm in ("__eq__", "__ne__") and args and self.shadow(args[0]) is not None:
                sh = self.make_shadow(recv)
            if sh is not None:
                if nm == "__init__":
                    return sh.update(*args, **kwargs)
                if nm in ("__eq__", "__ne__") and args and isinstance(args[0], dict) and not isinstance(args[0], SymDict):
                    # C-level dict equality of two dict-subclass instances: compare the shadows
                    o = self.shadow(args[0])
                    r = sh.s_equals(o if o is not None else dict(dict.items(args[0])))
                    return r if nm == "__eq__" else snot(r)
                return getattr(sh, nm)(*args, **kwargs)
        if nm in ("__init__", "update", "fromkeys", "__or__", "__ior__", "union", "intersection", "difference"):
            conv = []
            for a in args:
                if isinstance(a, SymDict):
                    a = a.as_native()
                elif isinstance(recv, (set, frozenset)) and has_sym(a):
                    raise Unsupported(f"set.{nm} with symbolic members")
                conv.append(a)
            return native(*conv, **kwargs)
        if nm in ("values", "items", "keys", "__len__", "__iter__", "copy", "clear", "popitem"):
            return native(*args, **kwargs)
        if args and not sym_key(args[0]) and isinstance(recv, dict):
            return native(*args, **kwargs)
        return self.hashed_call(recv, nm, args, kwargs)

    def hashed_call(self, recv, name, args, kwargs):
        """dict/set operations with a symbolic key on a concrete container"""
        if isinstance(recv, SymDict):
            return getattr(recv, name)(*args, **kwargs)
        if type(recv) is dict or isinstance(recv, dict):
            if name in ("get", "__getitem__", "__contains__", "pop", "setdefault", "__setitem__", "__delitem__"):
                key = args[0]
                if sym_key(key) and name in ("get", "__getitem__") and isinstance(key, SSeq) and len(recv) > 8:
                    r = self.table_lookup(recv, key)
                    if r is not _NOHIT:
                        return r
                    if name == "get":
                        return args[1] if len(args) > 1 else kwargs.get("default")
                    raise KeyError(key)
                if sym_key(key):
                    for k in list(dict.keys(recv)):
                        if truth(s_eq(key, k)):
                            return getattr(dict, name)(recv, k, *args[1:], **kwargs)
                    if name == "get":
                        return args[1] if len(args) > 1 else kwargs.get("default")
                    if name == "__contains__":
                        return False
                    if name == "pop" and len(args) > 1:
                        return args[1]
                    if name in ("setdefault", "__setitem__"):
                        raise Unsupported("storing a symbolic key into a native dict")
                    raise KeyError(key)
                return getattr(dict, name)(recv, *args, **kwargs)
        if isinstance(recv, (set, frozenset)):
            if name == "__contains__":
                return s_contains(recv, args[0])
            if name == "issuperset":
                return sand(*[s_contains(recv, x) for x in self.iterate(args[0])])
            if name == "isdisjoint":
                return snot(sor(*[s_contains(recv, x) for x in self.iterate(args[0])]))
            if name in ("add", "discard", "remove"):
                key = args[0]
                for k in list(recv):
                    if truth(s_eq(key, k)):
                        return getattr(recv, name)(k)
                if name == "discard":
                    return None
                if name == "remove":
                    raise KeyError(key)
                raise Unsupported("adding a symbolic member to a native set")
        raise Unsupported(f"{type(recv).__name__}.{name} with symbolic key")

    def table_lookup(self, table, key):
        """table[key] for a symbolic str/bytes key over a large concrete table whose
        values are str/bytes: forks only on the *shape* (length) of the value and
        builds the value element-wise as an if-then-else over the matching keys"""
        klen = key.clen()
        ktype = str if key.kind == "str" else bytes
        groups = {}
        for k, v in dict.items(table):
            if type(k) is not ktype or len(k) != klen or not isinstance(v, (str, bytes)):
                if type(k) is ktype and len(k) == klen:
                    groups = None
                    break
                continue
            groups.setdefault((type(v), len(v)), []).append((k, v))
        if groups is None:
            # values of other types: fall back to key-by-key forking
            for k in list(dict.keys(table)):
                if truth(s_eq(key, k)):
                    return dict.__getitem__(table, k)
            return _NOHIT
        c = ctx()
        for (vt, vl), ents in groups.items():
            conds = []
            for k, v in ents:
                kk = [ord(ch) for ch in k] if ktype is str else list(k)
                conds.append(z3.And(*[e == x for e, x in zip(key.elems, kk)]) if klen else z3.BoolVal(True))
            if not c.decide(z3.Or(*conds) if len(conds) > 1 else conds[0]):
                continue
            w = 21 if vt is str else 8
            # result elements are fresh variables tied to the key by implications (one
            # per distinct output value): keeps downstream terms small
            elems = []
            fid = next(c.fresh)
            for j in range(vl):
                r = z3.BitVec(f"tbl{fid}_{j}", w)
                byval = {}
                for cnd, (k, v) in zip(conds, ents):
                    byval.setdefault(ord(v[j]) if vt is str else v[j], []).append((cnd, k))
                if len(byval) == 1:
                    elems.append(z3.BitVecVal(next(iter(byval)), w))
                    continue
                for val, lst in byval.items():
                    if klen == 1:
                        from .seq import in_ranges, ranges_of

                        ks = sorted((ord(k) if ktype is str else k[0]) for _, k in lst)
                        pre = in_ranges(key.elems[0], ranges_of(ks))
                    else:
                        pre = z3.Or(*[cn for cn, _ in lst]) if len(lst) > 1 else lst[0][0]
                    c.solver.add(z3.Implies(pre, r == val))
                from .seq import VAR_UB

                VAR_UB[r.decl().name()] = max(byval)
                c.solver.add(z3.ULE(r, max(byval)))
                elems.append(r)
            c.model = None
            return SSeq("str" if vt is str else "bytes", elems, vl)
        return _NOHIT

    def pattern_call(self, pat, name, args, kwargs):
        m = rx.METHODS.get(name)
        if m is None:
            raise Unsupported(f"re.Pattern.{name} on symbolic subject")
        args = [self.wrap_callable(a) for a in args]
        return m(pat, *args, **kwargs)

    def wrap_callable(self, a):
        """callbacks handed to primitive models run through the interpreter"""
        if isinstance(a, (types.FunctionType, types.MethodType)) and not isinstance(a, Closure):
            return lambda *x, **k: self.call(a, x, k)
        return a

    def construct(self, cls, args, kwargs):
        prim = PRIMS.get(cls) if cls.__hash__ else None
        if prim is not None:
            return prim(self, *args, **kwargs)
        if cls in (set, frozenset) and has_sym(args):
            raise Unsupported("set() of symbolic members")
        init = None
        new = None
        for klass in cls.__mro__:
            if init is None and "__init__" in klass.__dict__:
                init = klass.__dict__["__init__"]
            if new is None and "__new__" in klass.__dict__:
                new = klass.__dict__["__new__"]
        py_init = isinstance(init, types.FunctionType) and self.in_prefix(init) and self.interpretable(init)
        py_new = isinstance(new, staticmethod) or isinstance(new, types.FunctionType)
        if py_new:
            newf = new.__func__ if isinstance(new, staticmethod) else new
            if isinstance(newf, types.FunctionType) and self.in_prefix(newf) and self.interpretable(newf):
                obj = self.run_function(newf, (cls,) + tuple(args), kwargs)
                if isinstance(obj, cls) and init is not None:
                    if py_init:
                        self.run_function(init, (obj,) + tuple(args), kwargs)
                    else:
                        init(obj, *args, **kwargs)
                return obj
            return cls(*args, **kwargs)
        if py_init:
            if issubclass(cls, BaseException):
                obj = cls.__new__(cls, *args)
            else:
                obj = cls.__new__(cls)
            self.run_function(init, (obj,) + tuple(args), kwargs)
            return obj
        if has_sym(args) or has_sym(tuple(kwargs.values())):
            if issubclass(cls, BaseException):
                return cls(*args, **kwargs)
            import functools as _ft
            import itertools as _it

            if cls in (_ft.partial, _it.chain, _it.islice, _it.repeat):
                # containers of callables / iterables: they never look at the values
                return cls(*args, **kwargs)
            has_py = isinstance(init, types.FunctionType) or isinstance(new, (types.FunctionType, staticmethod))
            if has_py and cls.__module__ != "builtins":
                return cls(*args, **kwargs)
            if issubclass(cls, dict) and cls is not dict and init is dict.__init__ and new is dict.__new__:
                # a dict subclass without its own constructor: fill it through the shadow
                obj = cls.__new__(cls)
                self.dict_native(obj, "__init__", tuple(args), kwargs, lambda *a, **k: dict.__init__(obj, *a, **k))
                return obj
            raise Unsupported(f"constructor {cls.__module__}.{cls.__name__} (C) with symbolic argument")
        return cls(*args, **kwargs)

    _sig_cache = {}

    def run_function(self, f, args, kwargs):
        node = func_ast(f)
        ck = (f.__code__.co_filename, f.__code__.co_firstlineno, f.__code__.co_name)
        self.funcs_seen[str(f.__module__) + "." + f.__qualname__] = _src_cache[ck][1] if ck in _src_cache else "generated-at-run-time"
        env0 = Env(f.__globals__)
        if f.__closure__:
            for name, cell in zip(f.__code__.co_freevars, f.__closure__):
                try:
                    env0.vars[name] = cell.cell_contents
                except ValueError:
                    pass
            if "__class__" in env0.vars:
                env0.klass = env0.vars["__class__"]
        is_gen = bool(f.__code__.co_flags & inspect.CO_GENERATOR)
        return self.run_def(node, env0, args, kwargs, f, is_gen)

    def run_def(self, node, parent_env, args, kwargs, fobj, is_gen=False):
        env = Env(parent_env.globs, parent_env)
        a = node.args
        if fobj is not None:
            try:
                sig = Interp._sig_cache.get(fobj)
                if sig is None:
                    sig = Interp._sig_cache[fobj] = inspect.signature(fobj, follow_wrapped=False)
                ba = sig.bind(*args, **kwargs)
                ba.apply_defaults()
                env.vars.update(ba.arguments)
            except ValueError:
                # generated code may use parameter names that are not identifiers
                self.bind_closure_args(a, env, parent_env, args, kwargs)
            if args:
                env.selfobj = args[0]
            env.is_func = True
            qn = getattr(fobj, "__qualname__", "").replace(".<locals>", "").split(".")
            if len(qn) >= 2:
                env.mangle = qn[-2]
        else:
            self.bind_closure_args(a, env, parent_env, args, kwargs)
        self.depth += 1
        if self.depth > 200:
            raise BoundExceeded("interpreter recursion depth")
        frame = [getattr(fobj, "__qualname__", None) or getattr(node, "name", "?"), 0]
        self.stack.append(frame)
        try:
            if is_gen:
                env.yields = []
                try:
                    self.exec_block(node.body, env)
                except _Return:
                    pass
                return iter(env.yields)
            try:
                self.exec_block(node.body, env)
            except _Return as r:
                return r.v
            return None
        except (Unsupported, BoundExceeded) as e:
            if not hasattr(e, "symex_stack"):
                e.symex_stack = [f"{n}:{ln}" for n, ln in self.stack]
            raise
        finally:
            self.depth -= 1
            self.stack.pop()

    def bind_closure_args(self, a, env, parent_env, args, kwargs):
        params = [x.arg for x in a.posonlyargs + a.args]
        defaults = a.defaults
        vals = list(args)
        kwargs = dict(kwargs)
        nd = len(defaults)
        for i, p in enumerate(params):
            if i < len(vals):
                env.vars[p] = vals[i]
            elif p in kwargs:
                env.vars[p] = kwargs.pop(p)
            else:
                di = i - (len(params) - nd)
                if di < 0:
                    raise TypeError(f"missing argument {p}")
                env.vars[p] = self.eval(defaults[di], parent_env)
        if a.vararg:
            env.vars[a.vararg.arg] = tuple(vals[len(params):])
        elif len(vals) > len(params):
            raise TypeError("too many positional arguments")
        for ko, kd in zip(a.kwonlyargs, a.kw_defaults):
            if ko.arg in kwargs:
                env.vars[ko.arg] = kwargs.pop(ko.arg)
            elif kd is not None:
                env.vars[ko.arg] = self.eval(kd, parent_env)
            else:
                raise TypeError(f"missing keyword argument {ko.arg}")
        if a.kwarg:
            env.vars[a.kwarg.arg] = kwargs
        elif kwargs:
            raise TypeError(f"unexpected keyword arguments {list(kwargs)}")

    # --------------------------------------------------------- statements
    def exec_block(self, stmts, env):
        for s in stmts:
            self.exec(s, env)

    def exec(self, s, env):
        if self.stack:
            self.stack[-1][1] = getattr(s, "lineno", 0)
        m = getattr(self, "x_" + type(s).__name__, None)
        if m is None:
            raise Unsupported(f"stmt {type(s).__name__}")
        return m(s, env)

    def x_Expr(self, s, env):
        self.eval(s.value, env)

    def x_Pass(self, s, env):
        pass

    def x_Import(self, s, env):
        for al in s.names:
            mod = __import__(al.name)
            if al.asname:
                import importlib

                env.store(al.asname, importlib.import_module(al.name))
            else:
                env.store(al.name.split(".")[0], mod)

    def x_ImportFrom(self, s, env):
        import importlib

        pkg = env.globs.get("__package__") or env.globs.get("__name__", "").rpartition(".")[0]
        name = ("." * s.level) + (s.module or "")
        mod = importlib.import_module(name, pkg) if s.level else importlib.import_module(s.module)
        for al in s.names:
            try:
                v = getattr(mod, al.name)
            except AttributeError:
                v = importlib.import_module(f"{mod.__name__}.{al.name}")
            env.store(al.asname or al.name, v)

    def x_Return(self, s, env):
        raise _Return(self.eval(s.value, env) if s.value is not None else None)

    def x_Break(self, s, env):
        raise _Break()

    def x_Continue(self, s, env):
        raise _Continue()

    def x_Nonlocal(self, s, env):
        env.nonlocals.update(s.names)

    def x_Global(self, s, env):
        env.globals_decl.update(s.names)

    def x_FunctionDef(self, s, env):
        f = Closure(s, env, self, s.name)
        for d in reversed(s.decorator_list):
            f = self.call(self.eval(d, env), (f,), {})
        env.store(s.name, f)

    def x_Assign(self, s, env):
        v = self.eval(s.value, env)
        for t in s.targets:
            self.assign(t, v, env)

    def x_AnnAssign(self, s, env):
        if s.value is not None:
            self.assign(s.target, self.eval(s.value, env), env)

    def x_AugAssign(self, s, env):
        if isinstance(s.target, ast.Name):
            cur = env.lookup(s.target.id)
        elif isinstance(s.target, ast.Attribute):
            obj = self.eval(s.target.value, env)
            cur = self.getattr(obj, s.target.attr)
        else:
            obj = self.eval(s.target.value, env)
            idx = self.eval(s.target.slice, env)
            cur = self.getitem(obj, idx)
        rhs = self.eval(s.value, env)
        v = self.binop(type(s.op), cur, rhs, inplace=True)
        if isinstance(s.target, ast.Name):
            env.store(s.target.id, v)
        elif isinstance(s.target, ast.Attribute):
            self.setattr(obj, s.target.attr, v)
        else:
            self.setitem(obj, idx, v)

    def assign(self, t, v, env):
        if isinstance(t, ast.Name):
            env.store(t.id, v)
        elif isinstance(t, ast.Attribute):
            self.setattr(self.eval(t.value, env), env.mangled(t.attr), v)
        elif isinstance(t, ast.Subscript):
            obj = self.eval(t.value, env)
            self.setitem(obj, self.eval(t.slice, env), v)
        elif isinstance(t, (ast.Tuple, ast.List)):
            f = self.dunder(v, "__iter__")
            vals = list(self.call(f, (v,), {})) if f is not None else list(v)
            star = [i for i, e in enumerate(t.elts) if isinstance(e, ast.Starred)]
            if star:
                i = star[0]
                after = len(t.elts) - i - 1
                if len(vals) < len(t.elts) - 1:
                    raise ValueError("not enough values to unpack")
                for e, x in zip(t.elts[:i], vals[:i]):
                    self.assign(e, x, env)
                self.assign(t.elts[i].value, vals[i: len(vals) - after], env)
                for e, x in zip(t.elts[i + 1:], vals[len(vals) - after:]):
                    self.assign(e, x, env)
                return
            if len(vals) != len(t.elts):
                raise ValueError(
                    f"{'too many' if len(vals) > len(t.elts) else 'not enough'} values to unpack (expected {len(t.elts)})"
                )
            for e, x in zip(t.elts, vals):
                self.assign(e, x, env)
        else:
            raise Unsupported(f"assign target {type(t).__name__}")

    def x_Delete(self, s, env):
        for t in s.targets:
            if isinstance(t, ast.Subscript):
                obj = self.eval(t.value, env)
                idx = self.eval(t.slice, env)
                f = self.dunder(obj, "__delitem__")
                if f is not None:
                    self.call(f, (obj, idx), {})
                elif isinstance(obj, dict) and not isinstance(obj, SymDict) and self.shadow(obj) is not None:
                    self.shadow(obj).s_del(idx)
                elif type(obj) is dict and sym_key(idx):
                    self.hashed_call(obj, "__delitem__", (idx,), {})
                else:
                    del obj[idx]
            elif isinstance(t, ast.Name):
                del env.vars[t.id]
            elif isinstance(t, ast.Attribute):
                obj = self.eval(t.value, env)
                f = self.dunder(obj, "__delattr__")
                if f is not None:
                    self.call(f, (obj, t.attr), {})
                else:
                    delattr(obj, t.attr)
            else:
                raise Unsupported("del target")

    def x_If(self, s, env):
        if self.truth(self.eval(s.test, env)):
            self.exec_block(s.body, env)
        else:
            self.exec_block(s.orelse, env)

    def x_While(self, s, env):
        n = 0
        bound = ctx().loop_bound if core.active() else 10 ** 9
        while self.truth(self.eval(s.test, env)):
            n += 1
            if n > bound:
                raise BoundExceeded(f"while loop at line {s.lineno} exceeded {bound} iterations")
            try:
                self.exec_block(s.body, env)
            except _Break:
                return
            except _Continue:
                continue
        self.exec_block(s.orelse, env)

    def iterate(self, it):
        f = self.dunder(it, "__iter__")
        if f is not None:
            return self.call(f, (it,), {})
        if isinstance(it, SymDict):
            return iter(it.s_keys())
        sh = self.shadow(it)
        if sh is not None:
            return iter(sh.s_keys())
        return iter(it)

    def x_For(self, s, env):
        it = self.iterate(self.eval(s.iter, env))
        nx = self.dunder(it, "__next__")
        while True:
            try:
                v = self.call(nx, (it,), {}) if nx is not None else next(it)
            except StopIteration:
                break
            self.assign(s.target, v, env)
            try:
                self.exec_block(s.body, env)
            except _Break:
                return
            except _Continue:
                continue
        self.exec_block(s.orelse, env)

    def x_Raise(self, s, env):
        if s.exc is None:
            raise
        exc = self.eval(s.exc, env)
        if isinstance(exc, type):
            exc = self.call(exc, (), {})
        if s.cause is not None:
            cause = self.eval(s.cause, env)
            raise exc from cause
        raise exc

    def x_Assert(self, s, env):
        if not self.truth(self.eval(s.test, env)):
            raise AssertionError()

    def x_Try(self, s, env):
        try:
            try:
                self.exec_block(s.body, env)
            except Exception as e:
                for h in s.handlers:
                    if h.type is None or isinstance(e, self.eval(h.type, env)):
                        if h.name:
                            env.store(h.name, e)
                        self.exec_block(h.body, env)
                        break
                else:
                    raise
            else:
                self.exec_block(s.orelse, env)
        finally:
            self.exec_block(s.finalbody, env)

    def x_With(self, s, env):
        if len(s.items) != 1:
            raise Unsupported("multi-item with")
        item = s.items[0]
        mgr = self.eval(item.context_expr, env)
        enter = self.dunder(mgr, "__enter__")
        ex = self.dunder(mgr, "__exit__")
        v = self.call(enter, (mgr,), {}) if enter else mgr.__enter__()
        if item.optional_vars is not None:
            self.assign(item.optional_vars, v, env)
        try:
            self.exec_block(s.body, env)
        except Exception as e:
            args = (type(e), e, e.__traceback__)
            sup = self.call(ex, (mgr,) + args, {}) if ex else mgr.__exit__(*args)
            if not sup:
                raise
        else:
            if ex:
                self.call(ex, (mgr, None, None, None), {})
            else:
                mgr.__exit__(None, None, None)

    # -------------------------------------------------------- expressions
    def eval(self, e, env):
        m = getattr(self, "e_" + type(e).__name__, None)
        if m is None:
            raise Unsupported(f"expr {type(e).__name__}")
        v = m(e, env)
        # concretisation at rest: a sequence whose elements and length are all constants
        # goes back to a native value, so concrete sub-computations run in CPython
        if type(v) is SSeq and v.kind != "bytearray" and v.is_concrete():
            return v.concrete()
        if type(v) is tuple and v and any(type(x) is SSeq for x in v):
            return tuple(x.concrete() if type(x) is SSeq and x.kind != "bytearray" and x.is_concrete() else x for x in v)
        if type(v) is list and v and any(type(x) is SSeq for x in v):
            for i, x in enumerate(v):
                if type(x) is SSeq and x.kind != "bytearray" and x.is_concrete():
                    v[i] = x.concrete()
        return v

    def e_Constant(self, e, env):
        return e.value

    def e_Name(self, e, env):
        return env.lookup(e.id)

    def e_Tuple(self, e, env):
        return tuple(self._elts(e.elts, env))

    def e_List(self, e, env):
        return list(self._elts(e.elts, env))

    def e_Set(self, e, env):
        els = self._elts(e.elts, env)
        if has_sym(els):
            return SymSet(els)
        return set(els)  # displays of constants stay native (used for membership tests)

    def _elts(self, elts, env):
        out = []
        for x in elts:
            if isinstance(x, ast.Starred):
                out.extend(self.iterate(self.eval(x.value, env)))
            else:
                out.append(self.eval(x, env))
        return out

    def e_Dict(self, e, env):
        d = SymDict()
        for k, v in zip(e.keys, e.values):
            if k is None:
                src = self.eval(v, env)
                if isinstance(src, SymDict):
                    for kk, vv in src.s_items():
                        d.s_set(kk, vv)
                else:
                    for kk in src:
                        d.s_set(kk, src[kk])
            else:
                d.s_set(self.eval(k, env), self.eval(v, env))
        return d

    def e_Attribute(self, e, env):
        obj = self.eval(e.value, env)
        return self.getattr(obj, env.mangled(e.attr))

    def getattr(self, obj, name):
        if is_sym(obj) or isinstance(obj, (type, types.ModuleType, SymDict, SymSet, Closure)) or self.native_mode:
            return getattr(obj, name)
        t = type(obj)
        if t.__module__ == "builtins":
            return getattr(obj, name)
        # data/non-data descriptors implemented in Python inside the interpreted packages
        for klass in t.__mro__:
            if name in klass.__dict__:
                d = klass.__dict__[name]
                if isinstance(d, property):
                    if isinstance(d.fget, types.FunctionType) and type(d) is property:
                        if self.in_prefix(d.fget) and self.interpretable(d.fget):
                            return self.call(d.fget, (obj,), {})
                        if isinstance(obj, tuple) and has_sym(obj) and self.interpretable(d.fget) \
                                and (d.fget.__module__ or "").split(".")[0] not in self.NEVER:
                            # properties of stdlib result tuples (urllib.parse.SplitResult) over symbolic fields
                            return self.call(d.fget, (obj,), {})
                        return getattr(obj, name)
                    g = type(d).__dict__.get("__get__")
                    if isinstance(g, types.FunctionType) and self.in_prefix(g) and self.interpretable(g):
                        return self.call(g, (d, obj, t), {})
                    return getattr(obj, name)
                g = None
                for dk in type(d).__mro__:
                    if "__get__" in dk.__dict__:
                        g = dk.__dict__["__get__"]
                        break
                if isinstance(g, types.FunctionType) and self.in_prefix(g) and self.interpretable(g):
                    if name in getattr(obj, "__dict__", {}) and "__set__" not in type(d).__dict__:
                        return obj.__dict__[name]
                    return self.call(g, (d, obj, t), {})
                break
        try:
            return object.__getattribute__(obj, name) if type(obj).__getattribute__ is object.__getattribute__ else getattr(obj, name)
        except AttributeError:
            ga = self.dunder(obj, "__getattr__")
            if ga is not None:
                return self.call(ga, (obj, name), {})
            raise

    def setattr(self, obj, name, v):
        if is_sym(obj) or isinstance(obj, type) or self.native_mode:
            return setattr(obj, name, v)
        sa = self.dunder(obj, "__setattr__")
        if sa is not None:
            return self.call(sa, (obj, name, v), {})
        for klass in type(obj).__mro__:
            if name in klass.__dict__:
                d = klass.__dict__[name]
                if isinstance(d, property) and type(d) is property and isinstance(d.fset, types.FunctionType):
                    if self.in_prefix(d.fset) and self.interpretable(d.fset):
                        return self.call(d.fset, (obj, v), {})
                else:
                    st = None
                    for dk in type(d).__mro__:
                        if "__set__" in dk.__dict__:
                            st = dk.__dict__["__set__"]
                            break
                    if isinstance(st, types.FunctionType) and self.in_prefix(st) and self.interpretable(st):
                        return self.call(st, (d, obj, v), {})
                break
        return setattr(obj, name, v)

    def getitem(self, obj, idx):
        if isinstance(obj, (bytes, bytearray, str)) and (
            is_sym(idx) or (isinstance(idx, slice) and any(is_sym(x) for x in (idx.start, idx.stop)))
        ):
            obj = lift(bytes(obj) if isinstance(obj, bytearray) else obj)
        if isinstance(obj, SymDict):
            return obj.s_get(idx)
        if isinstance(obj, dict) and self.shadow(obj) is not None and self.dunder(obj, "__getitem__") is None:
            return self.shadow(obj).s_get(idx)
        if isinstance(obj, (list, tuple)) and isinstance(idx, (SInt, SBool)):
            idx = ctx().concretize(zi(idx))
        if isinstance(obj, (list, tuple)) and isinstance(idx, slice) and any(is_sym(x) for x in (idx.start, idx.stop)):
            c = ctx()
            idx = slice(*(c.concretize(zi(x)) if is_sym(x) else x for x in (idx.start, idx.stop, idx.step)))
        f = self.dunder(obj, "__getitem__")
        if f is not None:
            return self.call(f, (obj, idx), {})
        if sym_key(idx) and (type(obj) is dict or isinstance(obj, dict)):
            return self.hashed_call(obj, "__getitem__", (idx,), {})
        return obj[idx]

    def setitem(self, obj, idx, v):
        if isinstance(obj, SymDict):
            return obj.s_set(idx, v)
        f = self.dunder(obj, "__setitem__")
        if f is not None:
            return self.call(f, (obj, idx, v), {})
        if isinstance(obj, dict) and (self.shadow(obj) is not None or sym_key(idx)):
            return self.dict_native(obj, "__setitem__", (idx, v), {}, lambda *a: dict.__setitem__(obj, *a))
        if isinstance(obj, list) and isinstance(idx, (SInt, SBool)):
            idx = ctx().concretize(zi(idx))
        if sym_key(idx) and isinstance(obj, dict):
            return self.hashed_call(obj, "__setitem__", (idx, v), {})
        if isinstance(obj, bytearray) and (is_sym(v) or is_sym(idx) or (isinstance(idx, slice) and has_sym((idx.start, idx.stop)))):
            raise Unsupported("symbolic store into a native bytearray")
        obj[idx] = v

    def e_Subscript(self, e, env):
        obj = self.eval(e.value, env)
        idx = self.eval(e.slice, env)
        return self.getitem(obj, idx)

    def e_Slice(self, e, env):
        return slice(
            self.eval(e.lower, env) if e.lower else None,
            self.eval(e.upper, env) if e.upper else None,
            self.eval(e.step, env) if e.step else None,
        )

    def binop(self, op, l, r, inplace=False):
        if op is ast.Mod and isinstance(l, (str, bytes)) and has_sym(r):
            return fmt.percent_format(lift(l), r)
        if op is ast.Add and isinstance(l, (list, tuple)):
            return l + r
        if not is_sym(l) and not is_sym(r):
            names = BIN_DUNDER.get(op)
            if names:
                if inplace:
                    f = self.dunder(l, "__i" + names[0][2:])
                    if f is not None:
                        return self.call(f, (l, r), {})
                f = self.dunder(l, names[0])
                if f is not None:
                    res = self.call(f, (l, r), {})
                    if res is not NotImplemented:
                        return res
                f = self.dunder(r, names[1])
                if f is not None:
                    res = self.call(f, (r, l), {})
                    if res is not NotImplemented:
                        return res
        if isinstance(l, bytearray) and is_sym(r):
            l = lift(l)
        if inplace and op in IBINOPS:
            return IBINOPS[op](l, r)
        return BINOPS[op](l, r)

    def e_BinOp(self, e, env):
        l = self.eval(e.left, env)
        r = self.eval(e.right, env)
        return self.binop(type(e.op), l, r)

    def e_UnaryOp(self, e, env):
        v = self.eval(e.operand, env)
        if isinstance(e.op, ast.Not):
            if isinstance(v, SBool):
                return ~v
            return not self.truth(v)
        if isinstance(e.op, ast.USub):
            return -v
        if isinstance(e.op, ast.UAdd):
            return +v
        if isinstance(e.op, ast.Invert):
            return ~v
        raise Unsupported("unary")

    def e_BoolOp(self, e, env):
        isand = isinstance(e.op, ast.And)
        v = None
        for i, x in enumerate(e.values):
            v = self.eval(x, env)
            if i == len(e.values) - 1:
                return v
            t = self.truth(v)
            if isand and not t:
                return v
            if not isand and t:
                return v
        return v

    def e_IfExp(self, e, env):
        return self.eval(e.body, env) if self.truth(self.eval(e.test, env)) else self.eval(e.orelse, env)

    def e_NamedExpr(self, e, env):
        v = self.eval(e.value, env)
        self.assign(e.target, v, env)
        return v

    def compare(self, op, left, right):
        if op in (ast.Is, ast.IsNot):
            # a symbolic bool stands for one of the singletons True / False
            for a, b in ((left, right), (right, left)):
                if isinstance(a, SBool) and isinstance(b, bool):
                    r = a if b else snot(a)
                    return r if op is ast.Is else snot(r)
            return (left is right) if op is ast.Is else (left is not right)
        if op in (ast.In, ast.NotIn):
            f = self.dunder(right, "__contains__")
            if f is not None:
                r = self.call(f, (right, left), {})
                r = r if isinstance(r, SBool) else bool(r)
            elif self.shadow(right) is not None:
                r = self.shadow(right).s_contains(left)
            else:
                r = s_contains(right, left)
            return snot(r) if op is ast.NotIn else r
        if not is_sym(left) and not is_sym(right):
            f = self.dunder(left, CMP_DUNDER[op])
            if f is not None:
                r = self.call(f, (left, right), {})
                if r is not NotImplemented:
                    return r
            if op in (ast.Eq, ast.NotEq) and isinstance(left, (tuple, list)) and (has_sym(left) or has_sym(right)):
                r = s_eq(left, right)
                return snot(r) if op is ast.NotEq else r
            if op in (ast.Eq, ast.NotEq) and (isinstance(left, SymDict) or isinstance(right, SymDict)):
                sd, other = (left, right) if isinstance(left, SymDict) else (right, left)
                r = sd.s_equals(other)
                return snot(r) if op is ast.NotEq else r
        if op in (ast.Eq, ast.NotEq) and (is_sym(left) or is_sym(right)):
            r = s_eq(left, right)
            return snot(r) if op is ast.NotEq else r
        return CMPOPS[op](left, right)

    def e_Compare(self, e, env):
        left = self.eval(e.left, env)
        for i, (op, rn) in enumerate(zip(e.ops, e.comparators)):
            right = self.eval(rn, env)
            r = self.compare(type(op), left, right)
            if i == len(e.ops) - 1:
                return r
            if not self.truth(r):
                return False
            left = right
        return True

    def e_Call(self, e, env):
        args = []
        for a in e.args:
            if isinstance(a, ast.Starred):
                args.extend(self.iterate(self.eval(a.value, env)))
            else:
                args.append(self.eval(a, env))
        kwargs = {}
        for k in e.keywords:
            if k.arg is None:
                src = self.eval(k.value, env)
                if isinstance(src, SymDict):
                    kwargs.update(src.as_native())
                else:
                    kwargs.update(src)
            else:
                kwargs[k.arg] = self.eval(k.value, env)
        if isinstance(e.func, ast.Attribute):
            recv = self.eval(e.func.value, env)
            name = env.mangled(e.func.attr)
            if isinstance(recv, re.Pattern) and name in rx.METHODS and (has_sym(args) or has_sym(tuple(kwargs.values()))):
                return self.pattern_call(recv, name, args, kwargs)
            if isinstance(recv, (str, bytes, bytearray)) and (has_sym(args) or has_sym(tuple(kwargs.values()))):
                if isinstance(recv, bytearray):
                    if name in ("extend", "__iadd__", "append", "__setitem__", "insert"):
                        raise Unsupported("mutating a native bytearray with symbolic data")
                    recv = bytes(recv)
                recv = lift(recv)
            if isinstance(recv, super):
                f = getattr(recv, name)
            else:
                f = self.getattr(recv, name)
        else:
            if isinstance(e.func, ast.Name) and e.func.id == "super" and not args and not kwargs:
                klass = env.find_class()
                e2 = env
                while e2 is not None and not e2.is_func:
                    e2 = e2.parent
                if klass is None or e2 is None:
                    raise Unsupported("super() without class cell")
                return super(klass, e2.selfobj)
            f = self.eval(e.func, env)
        return self.call(f, args, kwargs)

    def e_Lambda(self, e, env):
        node = ast.FunctionDef(name="<lambda>", args=e.args, body=[ast.Return(value=e.body)], decorator_list=[], returns=None)
        return Closure(node, env, self, "<lambda>")

    def e_JoinedStr(self, e, env):
        parts = []
        symbolic = False
        for v in e.values:
            if isinstance(v, ast.Constant):
                parts.append(v.value)
                continue
            if not isinstance(v, ast.FormattedValue):
                # hand-built ASTs (werkzeug's URL builders) put bare expressions here
                v = ast.FormattedValue(value=v, conversion=-1, format_spec=None)
            val = self.eval(v.value, env)
            spec = self.eval(v.format_spec, env) if v.format_spec else ""
            if is_sym(val):
                if v.conversion == ord("r") and not spec:
                    # repr() of a symbolic value only occurs in diagnostics (exception
                    # messages, log lines): rendered as a placeholder, noted in the run
                    ctx().note("repr() of a symbolic value rendered as a placeholder in an f-string")
                    parts.append("<symbolic>")
                    continue
                if spec:
                    raise Unsupported("f-string format spec on symbolic value")
                parts.append(fmt.to_str(val))
                symbolic = True
                continue
            if v.conversion == ord("r"):
                val = repr(val)
            elif v.conversion == ord("s"):
                val = p_str(self, val)
            elif v.conversion == ord("a"):
                val = ascii(val)
            sf = self.dunder(val, "__str__") if not spec else None
            if sf is not None:
                r = self.call(sf, (val,), {})
                parts.append(r)
                symbolic = symbolic or is_sym(r)
            else:
                parts.append(format(val, spec))
        if not symbolic:
            return "".join(parts)
        out = SSeq.const("")
        for p in parts:
            out = out + lift(p)
        return out

    def e_FormattedValue(self, e, env):
        raise Unsupported("bare FormattedValue")

    def e_Yield(self, e, env):
        en = env
        while en is not None and en.yields is None:
            en = en.parent
        if en is None:
            raise Unsupported("yield outside generator")
        en.yields.append(self.eval(e.value, env) if e.value is not None else None)
        return None

    def e_YieldFrom(self, e, env):
        en = env
        while en is not None and en.yields is None:
            en = en.parent
        if en is None:
            raise Unsupported("yield outside generator")
        en.yields.extend(self.iterate(self.eval(e.value, env)))
        return None

    def e_Starred(self, e, env):
        raise Unsupported("starred expression")

    def _comp(self, gens, env, emit):
        def rec(i, env2):
            if i == len(gens):
                emit(env2)
                return
            g = gens[i]
            for v in self.iterate(self.eval(g.iter, env2)):
                e3 = Env(env2.globs, env2)
                self.assign(g.target, v, e3)
                if all(self.truth(self.eval(c, e3)) for c in g.ifs):
                    rec(i + 1, e3)

        rec(0, Env(env.globs, env))

    def e_ListComp(self, e, env):
        out = []
        self._comp(e.generators, env, lambda en: out.append(self.eval(e.elt, en)))
        return out

    def e_GeneratorExp(self, e, env):
        return iter(self.e_ListComp(e, env))

    def e_SetComp(self, e, env):
        vals = self.e_ListComp(e, env)
        if has_sym(vals) or core.active():
            return SymSet(vals)
        return set(vals)

    def e_DictComp(self, e, env):
        out = SymDict()
        self._comp(e.generators, env, lambda en: out.s_set(self.eval(e.key, en), self.eval(e.value, en)))
        return out


class NativeInterp:
    """Drop-in for Interp that calls everything natively (used for replay and for
    per-path validation: plain CPython, real werkzeug, no proxies)."""

    native_mode = True

    def __init__(self, stubs=None):
        self.stubs = dict(stubs or {})
        self.funcs_seen = {}

    def call(self, f, args=(), kwargs=None):
        return f(*args, **(kwargs or {}))

    def getattr(self, obj, name):
        return getattr(obj, name)

    def setattr(self, obj, name, v):
        return setattr(obj, name, v)

    def getitem(self, obj, idx):
        return obj[idx]

    def truth(self, v):
        return bool(v)

    def dict_items(self, obj):
        return list(dict.items(obj))
