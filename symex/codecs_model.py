"""Bounded models of str.encode / bytes.decode for latin-1, ascii and utf-8.

Lengths are concrete here (forked by the caller's clen()).  Each character/byte
class is decided by a fork, so the real exception types are raised on the
ill-formed side and `errors=` handlers behave as in CPython.  The models are
differentially tested against CPython by selftest.py.
"""
from __future__ import annotations

import codecs

import z3

from .core import Unsupported, ctx
from .seq import SSeq, WB, WS, bvv, lift


def _norm(enc):
    try:
        return codecs.lookup(enc).name
    except LookupError:
        raise


def _ext8(e):
    if z3.is_bv_value(e):
        return bvv(e.as_long() & 0xFF)
    return z3.Extract(7, 0, e)


def _zx(e, w=WS):
    if z3.is_bv_value(e):
        return bvv(e.as_long(), w)
    return z3.ZeroExt(w - e.size(), e)


def _simp(seq):
    seq.elems = [e if z3.is_bv_value(e) or z3.is_const(e) else z3.simplify(e) for e in seq.elems]
    return seq


def encode(s: SSeq, encoding="utf-8", errors="strict") -> SSeq:
    return _simp(_encode(s, encoding, errors))


def decode(b: SSeq, encoding="utf-8", errors="strict") -> SSeq:
    return _simp(_decode(b, encoding, errors))


def _encode(s: SSeq, encoding="utf-8", errors="strict") -> SSeq:
    enc = _norm(encoding)
    es = s.celems()
    c = ctx()
    out = []
    if enc in ("iso8859-1", "ascii"):
        lim = 0x100 if enc == "iso8859-1" else 0x80
        for i, e in enumerate(es):
            if c.decide(z3.ULT(e, lim)):
                out.append(_ext8(e))
            elif errors == "strict":
                raise UnicodeEncodeError(enc if enc == "ascii" else "latin-1", "?", i, i + 1, "ordinal not in range")
            elif errors == "replace":
                out.append(bvv(ord("?")))
            elif errors == "ignore":
                pass
            else:
                raise Unsupported(f"encode errors={errors}")
        return SSeq("bytes", out, len(out))
    if enc == "utf-8":
        for i, e in enumerate(es):
            if c.decide(z3.ULT(e, 0x80)):
                out.append(_ext8(e))
            elif c.decide(z3.ULT(e, 0x800)):
                out.append(_ext8(z3.LShR(e, 6)) | 0xC0)
                out.append((_ext8(e) & 0x3F) | 0x80)
            elif c.decide(z3.And(z3.UGE(e, 0xD800), z3.ULE(e, 0xDFFF))):
                if errors == "strict":
                    raise UnicodeEncodeError("utf-8", "?", i, i + 1, "surrogates not allowed")
                if errors == "replace":
                    out.append(bvv(ord("?")))
                elif errors == "ignore":
                    pass
                elif errors == "surrogateescape":
                    if c.decide(z3.And(z3.UGE(e, 0xDC80), z3.ULE(e, 0xDCFF))):
                        out.append(_ext8(e))
                    else:
                        raise UnicodeEncodeError("utf-8", "?", i, i + 1, "surrogates not allowed")
                else:
                    raise Unsupported(f"encode errors={errors}")
            elif c.decide(z3.ULT(e, 0x10000)):
                out.append(_ext8(z3.LShR(e, 12)) | 0xE0)
                out.append((_ext8(z3.LShR(e, 6)) & 0x3F) | 0x80)
                out.append((_ext8(e) & 0x3F) | 0x80)
            else:
                out.append(_ext8(z3.LShR(e, 18)) | 0xF0)
                out.append((_ext8(z3.LShR(e, 12)) & 0x3F) | 0x80)
                out.append((_ext8(z3.LShR(e, 6)) & 0x3F) | 0x80)
                out.append((_ext8(e) & 0x3F) | 0x80)
        return SSeq("bytes", out, len(out))
    if enc == "idna" and s.is_concrete():
        # fully concrete text: the real codec decides (IDN labels included)
        return lift(s.concrete().encode("idna"))
    if enc == "idna":
        # pure ASCII input only: labels must be 1..63 characters (an empty label is
        # allowed only at the very end), the result is the input unchanged
        if not c.decide(z3.And(*[z3.ULT(e, 0x80) for e in es]) if es else z3.BoolVal(True)):
            raise Unsupported("idna encoding of non-ASCII text")
        labels = s.split(".")
        if labels and len(labels[-1]) == 0 and len(labels) > 1:
            labels = labels[:-1]
        elif len(es) == 0:
            return SSeq("bytes", [], 0)
        for lab in labels:
            if not 0 < len(lab) < 64:
                raise UnicodeError("label empty or too long")
        return SSeq("bytes", [_ext8(e) for e in es], len(es))
    raise Unsupported(f"encode to {encoding}")


def _between(e, lo, hi):
    return z3.And(z3.UGE(e, lo), z3.ULE(e, hi))


def _decode(b: SSeq, encoding="utf-8", errors="strict") -> SSeq:
    enc = _norm(encoding)
    es = b.celems()
    n = len(es)
    c = ctx()
    out = []
    if enc == "iso8859-1":
        return SSeq("str", [_zx(e) for e in es], n)
    if enc == "ascii":
        for i, e in enumerate(es):
            if c.decide(z3.ULT(e, 0x80)):
                out.append(_zx(e))
            elif errors == "strict":
                raise UnicodeDecodeError("ascii", b"?", i, i + 1, "ordinal not in range(128)")
            elif errors == "replace":
                out.append(bvv(0xFFFD, WS))
            elif errors == "ignore":
                pass
            else:
                raise Unsupported(f"decode errors={errors}")
        return SSeq("str", out, len(out))
    if enc == "idna" and b.is_concrete():
        return lift(bytes(b.concrete()).decode("idna"))
    if enc == "idna":
        # ASCII input only.  A label without the ACE prefix decodes to itself; for an
        # 'xn--' label the punycode decoder (C/stdlib) is modelled by its contract: it raises
        # UnicodeError or returns some text (fresh symbolic characters).
        if not c.decide(z3.And(*[z3.ULT(e, 0x80) for e in es]) if es else z3.BoolVal(True)):
            raise Unsupported("idna decoding of non-ASCII bytes")
        labels = b.split(b".")
        outl = []
        for li, lab in enumerate(labels):
            le = lab.celems()
            ace = False
            if len(le) >= 4:
                ace = c.decide(z3.And(z3.Or(le[0] == 120, le[0] == 88), z3.Or(le[1] == 110, le[1] == 78), le[2] == 45, le[3] == 45))
            if ace:
                k = next(c.fresh)
                if c.decide(z3.Bool(f"punycode_invalid_{k}")):
                    raise UnicodeError("Invalid punycode label (modelled)")
                c.note("punycode label decoded to fresh symbolic text")
                outl.append(SSeq.fresh(f"punycode_{k}", 2, "str", minlen=1, maxcp=0xFFFF))
            else:
                outl.append(SSeq("str", [_zx(e) for e in le], len(le)))
        r = SSeq("str", [], 0)
        for li, lab in enumerate(outl):
            if li:
                r = r + SSeq.const(".")
            r = r + lab
        return r
    if enc != "utf-8":
        raise Unsupported(f"decode from {encoding}")

    def bad(i, j, reason):
        """ill-formed subsequence es[i:j]; returns nothing, appends replacement"""
        if errors == "strict":
            raise UnicodeDecodeError("utf-8", b"?" * n, i, j, reason)
        if errors == "replace":
            out.append(bvv(0xFFFD, WS))
        elif errors == "ignore":
            pass
        elif errors == "surrogateescape":
            for k in range(i, j):
                out.append(_zx(es[k]) + 0xDC00)
        else:
            real = _real_handler(errors)
            if real is not None:
                # a codec error handler registered by the code under test (werkzeug's
                # 'werkzeug.url_quote'): its real source is executed on a stand-in for the
                # UnicodeDecodeError.  Only handlers that resume right after the reported
                # range are supported (that is what the built-in decoders assume here).
                err = _FakeDecodeError(SSeq("bytes", list(es), n), i, j, reason)
                try:
                    rep, resume = c.interp.call(real, (err,), {})
                except Unsupported:
                    # (e.g. no quote model registered by this harness): fall back to the model
                    h = _handlers.get(errors)
                    if h is None:
                        raise
                    out.extend(h(es[i:j]))
                    return
                if not isinstance(resume, int):
                    resume = int(resume)
                if resume != j:
                    raise Unsupported("codec error handler resuming elsewhere than at the end of the error range")
                rep = lift(rep)
                if rep.kind != "str":
                    raise Unsupported("codec error handler returning bytes")
                out.extend(rep.celems())
                return
            h = _handlers.get(errors)
            if h is None:
                raise Unsupported(f"decode errors={errors}")
            out.extend(h(es[i:j]))

    i = 0
    while i < n:
        b0 = es[i]
        if c.decide(z3.ULT(b0, 0x80)):
            out.append(_zx(b0))
            i += 1
            continue
        # 2-byte
        if c.decide(_between(b0, 0xC2, 0xDF)):
            if i + 1 >= n:
                bad(i, n, "unexpected end of data")
                i = n
                continue
            b1 = es[i + 1]
            if c.decide(_between(b1, 0x80, 0xBF)):
                out.append((_zx(b0 & 0x1F) << 6) | _zx(b1 & 0x3F))
                i += 2
            else:
                bad(i, i + 1, "invalid continuation byte")
                i += 1
            continue
        if c.decide(_between(b0, 0xE0, 0xEF)):
            if c.decide(b0 == 0xE0):
                lo, hi = 0xA0, 0xBF
            elif c.decide(b0 == 0xED):
                lo, hi = 0x80, 0x9F
            else:
                lo, hi = 0x80, 0xBF
            if i + 1 >= n:
                bad(i, n, "unexpected end of data")
                i = n
                continue
            b1 = es[i + 1]
            if not c.decide(_between(b1, lo, hi)):
                bad(i, i + 1, "invalid continuation byte")
                i += 1
                continue
            if i + 2 >= n:
                bad(i, n, "unexpected end of data")
                i = n
                continue
            b2 = es[i + 2]
            if not c.decide(_between(b2, 0x80, 0xBF)):
                bad(i, i + 2, "invalid continuation byte")
                i += 2
                continue
            out.append((_zx(b0 & 0x0F) << 12) | (_zx(b1 & 0x3F) << 6) | _zx(b2 & 0x3F))
            i += 3
            continue
        if c.decide(_between(b0, 0xF0, 0xF4)):
            if c.decide(b0 == 0xF0):
                lo, hi = 0x90, 0xBF
            elif c.decide(b0 == 0xF4):
                lo, hi = 0x80, 0x8F
            else:
                lo, hi = 0x80, 0xBF
            if i + 1 >= n:
                bad(i, n, "unexpected end of data")
                i = n
                continue
            b1 = es[i + 1]
            if not c.decide(_between(b1, lo, hi)):
                bad(i, i + 1, "invalid continuation byte")
                i += 1
                continue
            if i + 2 >= n:
                bad(i, n, "unexpected end of data")
                i = n
                continue
            b2 = es[i + 2]
            if not c.decide(_between(b2, 0x80, 0xBF)):
                bad(i, i + 2, "invalid continuation byte")
                i += 2
                continue
            if i + 3 >= n:
                bad(i, n, "unexpected end of data")
                i = n
                continue
            b3 = es[i + 3]
            if not c.decide(_between(b3, 0x80, 0xBF)):
                bad(i, i + 3, "invalid continuation byte")
                i += 3
                continue
            out.append(
                (_zx(b0 & 0x07) << 18) | (_zx(b1 & 0x3F) << 12) | (_zx(b2 & 0x3F) << 6) | _zx(b3 & 0x3F)
            )
            i += 4
            continue
        bad(i, i + 1, "invalid start byte")
        i += 1
    return SSeq("str", out, len(out))


class _FakeDecodeError:
    """what a codec hands to its error handler: encoding, object, start, end, reason"""

    def __init__(self, obj, start, end, reason):
        self.encoding, self.object, self.start, self.end, self.reason = "utf-8", obj, start, end, reason


def _real_handler(name):
    """the Python function registered under this error-handler name by the code under test
    (None for built-in handlers or when no interpreter is active)"""
    import types

    try:
        f = codecs.lookup_error(name)
    except LookupError:
        return None
    c = ctx()
    if not isinstance(f, types.FunctionType) or getattr(c, "interp", None) is None:
        return None
    if not (getattr(f, "__module__", "") or "").startswith("werkzeug"):
        return None
    return f


# custom error handlers (name -> function(list of byte BVs) -> list of code point BVs)
_handlers = {}


def register_handler(name, fn):
    _handlers[name] = fn


def _url_quote_handler(bs):
    """model of werkzeug's codec error handler 'werkzeug.url_quote':
    quote(bytes, safe="") -> '%XX' (upper-case hex) for every offending byte"""
    out = []
    for b in bs:
        hi = z3.LShR(b, 4)
        lo = b & 0x0F
        out.append(bvv(ord("%"), WS))
        for nib in (hi, lo):
            out.append(z3.simplify(_zx(z3.If(z3.ULT(nib, 10), nib + 48, nib + 55))))
    return out


register_handler("werkzeug.url_quote", _url_quote_handler)
