"""Models of C-implemented stdlib entry points, each with a differential self-test
against the real function (run by the harnesses that use them)."""
from __future__ import annotations

import codecs
import encodings
import encodings.aliases
import itertools
import pkgutil

from .core import Unsupported, ctx
from .seq import SSeq, lift

_codec_table = None


def codec_table():
    """(aliases, modules): the alias map of the encodings package and, for every
    importable codec module, its canonical codec name"""
    global _codec_table
    if _codec_table is None:
        mods = {}
        for m in pkgutil.iter_modules(encodings.__path__):
            if m.name in ("aliases",):
                continue
            try:
                mods[m.name] = codecs.lookup(m.name).name
            except LookupError:
                pass
        _codec_table = (dict(encodings.aliases.aliases), mods)
    return _codec_table


def _sym_get(table, key):
    """table.get(key) for a symbolic str key (forks over the keys of equal length)"""
    import z3

    key = lift(key)
    n = key.clen()
    keys = [k for k in table if len(k) == n]
    if not keys:
        return None
    conds = [z3.And(*[e == ord(ch) for e, ch in zip(key.elems, k)]) if n else z3.BoolVal(True) for k in keys]
    i = ctx().choose(conds)
    return table[keys[i]] if i >= 0 else None


class CodecInfoModel:
    def __init__(self, name):
        self.name = name


def codecs_lookup_stub(I, name):
    """codecs.lookup(name) for symbolic text: C-level lower-casing / space->hyphen, then
    encodings.normalize_encoding (interpreted from the stdlib source), then the table."""
    if not isinstance(name, SSeq):
        return codecs.lookup(name)
    import z3

    es = name.celems()
    c = ctx()
    if es and c.decide(z3.Or(*[e == 0 for e in es])):
        raise ValueError("embedded null character")
    # C-level _Py_normalize_encoding: ASCII letters/digits and '.' are kept (lower-cased),
    # every run of other characters (non-ASCII included) becomes one '_' between kept
    # characters; leading and trailing runs are dropped
    kept = []
    punct = False
    for e in es:
        is_alnum = z3.Or(z3.And(z3.UGE(e, 48), z3.ULE(e, 57)), z3.And(z3.UGE(e, 65), z3.ULE(e, 90)),
                         z3.And(z3.UGE(e, 97), z3.ULE(e, 122)), e == 46)
        if c.decide(is_alnum):
            if punct and kept:
                kept.append(z3.BitVecVal(95, e.size()))
            kept.append(z3.simplify(z3.If(z3.And(z3.UGE(e, 65), z3.ULE(e, 90)), e + 32, e)))
            punct = False
        else:
            punct = True
    norm = SSeq("str", kept, len(kept))
    aliases, mods = codec_table()
    aliased = _sym_get(aliases, norm)
    if aliased is None:
        aliased = _sym_get(aliases, norm.replace(".", "_"))
    if aliased is not None and "." not in aliased and aliased in mods:
        return CodecInfoModel(mods[aliased])
    if norm.clen() and not bool(norm.contains(".")):
        hit = _sym_get({m: m for m in mods}, norm)
        if hit is not None:
            return CodecInfoModel(mods[hit])
    raise LookupError("unknown encoding")


def codecs_lookup_selftest():
    """differential test of the model's concrete behaviour against codecs.lookup"""
    from . import core
    from .interp import Interp

    alphabet = ["a", "s", "c", "i", "u", "t", "f", "8", "-", "_", " ", "L", "1", ".", "\xe9", "U", "6"]
    n = 0
    saved = core._ctx
    core.set_ctx(core.Ctx())
    try:
        I = Interp()
        names = ["utf-8", "UTF8", "utf 8", "latin-1", "l1", "ascii", "us-ascii", "u8", "utf_8", "utf.8", "iso-8859-1", "cp1252", "bogus", "", "-", "..", "a", "646", "u\xe0s", "U\xe0S", "\xe9us", "us\xe9", "l\xe91", "u\u0660s", "utf\xe98", "ut\xe9f8", "\xe9l1", "l1\xe9", "\xe9\xe9l1", "\u0660us"]
        names += ["".join(t) for t in itertools.product(alphabet, repeat=2)]
        names += ["".join(t) for t in itertools.product(["u", "8", "-", "t", "f", "_", "L", "1"], repeat=3)]
        for nm in names:
            try:
                exp = codecs.lookup(nm).name
            except LookupError:
                exp = None
            try:
                got = codecs_lookup_stub(I, SSeq.const(nm)).name
            except LookupError:
                got = None
            if exp != got:
                raise AssertionError(f"codecs.lookup model differs on {nm!r}: {got!r} vs {exp!r}")
            n += 1
    finally:
        core.set_ctx(saved)
    return n
