"""str()/int()/%-format models for symbolic values."""
from __future__ import annotations

import z3

from .core import BoundExceeded, SBool, SInt, Unsupported, ctx, mk_int, zi
from .seq import SSeq, WB, WS, bvv, in_ranges, lift, sconcat, unicode_whitespace, ranges_of

MAX_DIGITS = 6


def int_to_seq(v, kind="str", max_digits=None):
    """decimal rendering of a symbolic int; forks on sign and digit count"""
    if isinstance(v, bool):
        v = int(v)
    if isinstance(v, int):
        s = str(v)
        return SSeq.const(s if kind == "str" else s.encode())
    if isinstance(v, SBool):
        raise Unsupported("str(SBool)")
    c = ctx()
    md = max_digits or getattr(c, "max_digits", MAX_DIGITS)
    w = WS if kind == "str" else WB
    if v.bv is not None:
        return _int_to_seq_bv(v, kind, md, w)
    e = v.e
    neg = c.decide(e < 0)
    a = -e if neg else e
    nd = None
    for d in range(1, md + 1):
        if c.decide(a < 10 ** d):
            nd = d
            break
    if nd is None:
        raise BoundExceeded(f"str(int): more than {md} digits")
    digs = []
    for k in reversed(range(nd)):
        dv = (a / (10 ** k)) % 10
        digs.append(z3.Int2BV(dv + 48, w))
    if neg:
        digs.insert(0, bvv(ord("-"), w))
    return SSeq(kind, digs, len(digs))


def _int_to_seq_bv(v, kind, md, w):
    """decimal rendering of a bit-vector backed int, entirely in bit-vector arithmetic"""
    c = ctx()
    # the same symbolic int is always spelled with the same digit variables
    memo = getattr(c, "render_memo", None)
    if memo is None:
        memo = c.render_memo = {}
    mk = (v.bv.get_id(), kind)
    hit = memo.get(mk)
    if hit is not None:
        return SSeq(kind, list(hit[0]), len(hit[0]))
    neg = False if v.nonneg else bool(v < 0)
    bw = v.bv.size() + 1
    a = z3.SignExt(1, v.bv)
    if neg:
        a = -a
    nd = None
    for d in range(1, md + 1):
        lim = 10 ** d
        if lim.bit_length() + 1 > bw or c.decide(z3.ULT(a, z3.BitVecVal(lim, bw))):
            nd = d
            break
    if nd is None:
        raise BoundExceeded(f"str(int): more than {md} digits")
    # the digits are fresh variables tied to the value by one linear constraint
    # (multiplication by constants only -- division circuits stall bit-blasting)
    need = (10 ** nd).bit_length() + 1
    if need > bw:
        a = z3.ZeroExt(need - bw, a)
        bw = need
    fid = next(c.fresh)
    dvars = [z3.BitVec(f"dig{fid}_{k}", 4) for k in range(nd)]  # dvars[k] has weight 10**k
    tot = z3.BitVecVal(0, bw)
    for k, d in enumerate(dvars):
        c.solver.add(z3.ULE(d, 9))
        tot = tot + z3.ZeroExt(bw - 4, d) * z3.BitVecVal(10 ** k, bw)
    c.solver.add(tot == a)
    c.model = None
    digs = []
    for k in reversed(range(nd)):
        ch = z3.ZeroExt(w - 4, dvars[k]) + 48
        digs.append(ch)
    # remember what these digit characters spell, so that parsing them back (int(),
    # regex group + int()) returns the very same symbolic int without any arithmetic
    rendered = getattr(c, "rendered", None)
    if rendered is None:
        rendered = c.rendered = {}
    absval = (-v) if neg else v
    rendered[tuple(d.get_id() for d in digs)] = (absval, list(digs))
    full = ([bvv(ord("-"), w)] if neg else []) + digs
    memo[mk] = (full, v.bv)
    return SSeq(kind, full, len(full))
    if neg:
        digs.insert(0, bvv(ord("-"), w))
    return SSeq(kind, digs, len(digs))


def seq_to_int(s, base=10):
    """int(str) / int(bytes) model (base 10 only, ASCII digits; other Unicode decimal
    digits are reported Unsupported if feasible)."""
    if isinstance(base, SInt):
        base = ctx().concretize(base.e)
    if base not in (8, 10, 16):
        raise Unsupported("int() with base")
    s = lift(s)
    c = ctx()
    if s.kind == "str":
        s = s.strip()
    else:
        s = s.strip()
    es = s.celems()
    i = 0
    neg = False
    if es and c.decide(z3.Or(es[0] == ord("-"), es[0] == ord("+"))):
        neg = c.decide(es[0] == ord("-"))
        i = 1
    bad = ValueError(f"invalid literal for int() with base {base}")
    if base in (8, 16):
        # optional 0o / 0x prefix is accepted by int(x, base)
        pl = "o" if base == 8 else "x"
        if len(es) - i >= 2 and c.decide(z3.And(es[i] == 48, z3.Or(es[i + 1] == ord(pl), es[i + 1] == ord(pl.upper())))):
            i += 2
            if len(es) > i and c.decide(es[i] == ord("_")):
                i += 1
    digs = es[i:]
    if not digs:
        raise bad
    rendered = getattr(c, "rendered", None)
    if rendered and base == 10:
        hit = rendered.get(tuple(e.get_id() for e in digs))
        if hit is not None:
            return -hit[0] if neg else hit[0]
    # accumulate in a bit-vector wide enough for the digit count (no wrap-around)
    import math

    ndig = len(digs)
    vw = max(8, int(math.ceil(ndig * math.log2(base))) + 2)
    val = z3.BitVecVal(0, vw)
    prev_us = True  # underscore not allowed at start
    for k, e in enumerate(digs):
        def _w(x):
            return z3.ZeroExt(vw - x.size(), x) if vw >= x.size() else z3.Extract(vw - 1, 0, x)

        if c.decide(z3.And(z3.UGE(e, 48), z3.ULE(e, 47 + min(base, 10)))):
            val = val * base + _w(e) - 48
            prev_us = False
            continue
        if base == 16 and c.decide(z3.And(z3.UGE(e, 97), z3.ULE(e, 102))):
            val = val * base + _w(e) - 87
            prev_us = False
            continue
        if base == 16 and c.decide(z3.And(z3.UGE(e, 65), z3.ULE(e, 70))):
            val = val * base + _w(e) - 55
            prev_us = False
            continue
        if c.decide(e == ord("_")):
            if prev_us or k == len(digs) - 1:
                raise bad
            prev_us = True
            continue
        if s.kind == "str":
            if c.decide(in_ranges(e, _other_decimal_ranges())):
                raise Unsupported("int() of non-ASCII decimal digit")
        raise bad
    from .core import mk_int_bv

    r = mk_int_bv(val)
    return -r if neg else r


_odr = None


def _other_decimal_ranges():
    global _odr
    if _odr is None:
        _odr = ranges_of([c for c in range(128, 0x110000) if chr(c).isdecimal()])
    return _odr


def to_str(v):
    """str(v) for values that may be symbolic"""
    if isinstance(v, SSeq):
        if v.kind == "str":
            return v
        raise Unsupported("str(bytes-like symbolic)")
    if isinstance(v, SInt):
        return int_to_seq(v, "str")
    if isinstance(v, SBool):
        return SSeq.const("True") if bool(v) else SSeq.const("False")
    return str(v)


def percent_format(template: SSeq, args):
    """`template % args` where template is concrete-length; supports %s %d %i %%"""
    if not isinstance(args, tuple):
        args = (args,)
    args = list(args)
    kind = "str" if template.kind == "str" else "bytes"
    if not template.is_concrete():
        raise Unsupported("% format with symbolic template")
    t = template.concrete()
    if kind != "str":
        t = t.decode("latin-1")
    out = SSeq(kind, [], 0)
    i = 0
    lit = ""

    def flush():
        nonlocal out, lit
        if lit:
            out = sconcat(out, SSeq.const(lit if kind == "str" else lit.encode("latin-1")))
            lit = ""

    while i < len(t):
        ch = t[i]
        if ch != "%":
            lit += ch
            i += 1
            continue
        spec = t[i + 1]
        i += 2
        if spec == "%":
            lit += "%"
            continue
        zero, width = False, 0
        if spec == "0" or spec.isdigit():
            # %05d / %5d: zero flag and a decimal width
            j = i - 1
            if t[j] == "0":
                zero = True
                j += 1
            k = j
            while k < len(t) and t[k].isdigit():
                k += 1
            width = int(t[j:k]) if k > j else 0
            if k >= len(t) or t[k] not in "di":
                raise Unsupported(f"% format spec {t[i - 2:k + 1]}")
            spec = t[k]
            i = k + 1
        if not args:
            raise TypeError("not enough arguments for format string")
        a = args.pop(0)
        flush()
        if spec == "s":
            if kind == "str":
                piece = to_str(a)
                piece = lift(piece)
            else:
                if isinstance(a, (SInt, int)) and not isinstance(a, bool):
                    raise TypeError("%b requires a bytes-like object")
                piece = lift(a) if isinstance(a, SSeq) else SSeq.const(bytes(a))
                if piece.kind == "str":
                    raise TypeError("%b requires a bytes-like object")
                piece = piece.freeze()
        elif spec in "di":
            piece = int_to_seq(a, kind) if isinstance(a, SInt) else SSeq.const(("%d" % a) if kind == "str" else b"%d" % a)
            if width:
                if zero:
                    piece = piece.zfill(width)
                elif piece.clen() < width:
                    piece = sconcat(SSeq.const(" " * (width - piece.clen()) if kind == "str" else b" " * (width - piece.clen())), piece)
        else:
            raise Unsupported(f"% format spec {spec}")
        out = sconcat(out, piece)
    flush()
    if args:
        raise TypeError("not all arguments converted during string formatting")
    return out


def seq_to_float(s):
    """float(text) for texts of the shape [+-]?digits[.digits] (what werkzeug's q-value
    regex admits); any other feasible shape is reported Unsupported"""
    from .core import SReal

    s = lift(s).strip()
    c = ctx()
    es = s.celems()
    i = 0
    neg = False
    if es and c.decide(z3.Or(es[0] == ord("-"), es[0] == ord("+"))):
        neg = c.decide(es[0] == ord("-"))
        i = 1
    whole = z3.RealVal(0)
    ndig = 0
    while i < len(es) and c.decide(z3.And(z3.UGE(es[i], 48), z3.ULE(es[i], 57))):
        whole = whole * 10 + z3.ToReal(z3.BV2Int(es[i]) - 48)
        i += 1
        ndig += 1
    frac = z3.RealVal(0)
    if i < len(es) and c.decide(es[i] == ord(".")):
        i += 1
        scale = 10
        fd = 0
        while i < len(es) and c.decide(z3.And(z3.UGE(es[i], 48), z3.ULE(es[i], 57))):
            frac = frac + z3.ToReal(z3.BV2Int(es[i]) - 48) / scale
            scale *= 10
            i += 1
            fd += 1
        ndig += fd
    if i != len(es) or ndig == 0:
        raise Unsupported("float() of text outside [+-]digits[.digits]")
    v = whole + frac
    return SReal(z3.simplify(-v if neg else v))
