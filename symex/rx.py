"""symex.rx -- bounded, priority-respecting compilation of Python `re` patterns over
symbolic sequences.

The pattern is taken from the *live* compiled pattern object (re._parser.parse of
pattern.pattern / pattern.flags), so the encoding follows the source.  For a concrete
start offset the compiler enumerates the linear match paths in the order in which
Python's backtracking matcher would try them (alternation order, greedy before lazy,
...); the first path whose condition holds is Python's match.
"""
from __future__ import annotations

import re
import re._constants as C
import re._parser as P

import z3

from .core import BoundExceeded, SInt, Unsupported, ctx, mk_bool, mk_int, zi
from .seq import SSeq, WB, WS, bvv, in_ranges, lift, ranges_of, sconcat

_parsed = {}
MAX_ALTS = 40000


def parsed(pat: re.Pattern):
    k = (pat.pattern, pat.flags)
    if k not in _parsed:
        _parsed[k] = P.parse(pat.pattern, pat.flags)
    return _parsed[k]


_cat_cache = {}

_CAT_SRC = {
    C.CATEGORY_SPACE: (r"\s", False),
    C.CATEGORY_NOT_SPACE: (r"\s", True),
    C.CATEGORY_DIGIT: (r"\d", False),
    C.CATEGORY_NOT_DIGIT: (r"\d", True),
    C.CATEGORY_WORD: (r"\w", False),
    C.CATEGORY_NOT_WORD: (r"\w", True),
}


def _cat_ranges(cat, is_str, ascii_flag):
    """code point ranges matched by a category escape, obtained from the real `re`"""
    src, neg = _CAT_SRC[cat]
    k = (src, is_str, ascii_flag)
    if k not in _cat_cache:
        if is_str:
            allc = "".join(map(chr, range(0x110000)))
            got = re.findall(src, allc, re.ASCII if ascii_flag else 0)
            cps = sorted(ord(c) for c in got)
        else:
            allc = bytes(range(256))
            got = re.findall(src.encode(), allc)
            cps = sorted(c[0] for c in got)
        _cat_cache[k] = ranges_of(cps)
    return _cat_cache[k], neg


_ic_cache = {}


def _ignorecase_set(lit, is_str, ascii_flag):
    k = (lit, is_str, ascii_flag)
    if k not in _ic_cache:
        if not is_str or ascii_flag:
            ch = chr(lit)
            s = {lit}
            if ch.isascii() and ch.isalpha():
                s |= {ord(ch.lower()), ord(ch.upper())}
            _ic_cache[k] = sorted(s)
        else:
            p = re.compile(re.escape(chr(lit)), re.IGNORECASE)
            lo = chr(lit).lower()
            cand = {lit, ord(lo[0]), ord(chr(lit).upper()[0])}
            cand |= {c for c in range(0x110000) if chr(c).lower() == lo}
            cand |= {0x17F, 0x212A, 0x130, 0x131, 0x345, 0x3B9, 0x1FBE}
            _ic_cache[k] = sorted(c for c in cand if p.fullmatch(chr(c)))
    return _ic_cache[k]


class _Env:
    def __init__(self, pat, buf):
        self.flags = pat.flags
        self.is_str = buf.kind == "str"
        self.ascii = bool(pat.flags & re.ASCII) or not self.is_str
        self.icase = bool(pat.flags & re.IGNORECASE)

    def cat_pred(self, cat, e):
        rs, neg = _cat_ranges(cat, self.is_str, self.ascii)
        r = in_ranges(e, rs)
        return z3.Not(r) if neg else r

    def lit_pred(self, lit, e):
        if self.icase:
            cs = _ignorecase_set(lit, self.is_str, self.ascii)
            return z3.Or(*[e == c for c in cs]) if len(cs) > 1 else e == cs[0]
        return e == lit

    def in_pred(self, items, e):
        neg = False
        ds = []
        for op, av in items:
            if op is C.NEGATE:
                neg = True
            elif op is C.LITERAL:
                ds.append(self.lit_pred(av, e))
            elif op is C.RANGE:
                if self.icase and any(chr(c).isalpha() for c in range(av[0], min(av[1], 0x250) + 1)):
                    lo, hi = av
                    if hi < 128:
                        # ASCII range under IGNORECASE: add the other-case letters
                        extra = []
                        for c in range(lo, hi + 1):
                            ch = chr(c)
                            if ch.isalpha():
                                extra += _ignorecase_set(c, self.is_str, self.ascii)
                        ds.append(z3.Or(z3.And(z3.UGE(e, lo), z3.ULE(e, hi)), *[e == c for c in sorted(set(extra))]))
                        continue
                    raise Unsupported("non-ASCII range under IGNORECASE")
                ds.append(z3.And(z3.UGE(e, av[0]), z3.ULE(e, av[1])))
            elif op is C.CATEGORY:
                ds.append(self.cat_pred(av, e))
            else:
                raise Unsupported(f"IN item {op}")
        r = z3.Or(*ds) if ds else z3.BoolVal(False)
        return z3.Not(r) if neg else r


_pred_cache = {}


def _test(key, pred_fn, e):
    k = (e.get_id(), key)
    r = _pred_cache.get(k)
    if r is None:
        t = pred_fn(e)
        if z3.is_bv_value(e):
            t = z3.simplify(t)
        _pred_cache[k] = (t, e)
        if len(_pred_cache) > 200000:
            _pred_cache.clear()
        return t
    return r[0]


class Alt:
    __slots__ = ("cond", "end", "groups")

    def __init__(self, cond, end, groups):
        self.cond, self.end, self.groups = cond, end, groups


class _Found(BaseException):
    def __init__(self, alt):
        self.alt = alt


COMPILE_ALTS = 1500  # beyond this the matcher is *executed* with one fork per test


def alternatives(pat: re.Pattern, buf: SSeq, s: int, endpos=None, max_alts=MAX_ALTS, counter=None, execute=False,
                 accept=None):
    """Ordered list of Alt for matching `pat` at concrete start s.

    execute=True: instead of collecting conditions, every test is decided on the spot
    (Ctx.decide, forking); the first alternative that completes is the match and is
    returned through _Found -- a symbolic *execution* of the backtracking matcher."""
    tree = parsed(pat)
    env = _Env(pat, buf)
    flags = pat.flags
    n = buf.zn() if endpos is None else endpos
    cap = buf.cap
    nconc = buf.n if isinstance(buf.n, int) and endpos is None else None
    out = []
    count = counter if counter is not None else [0]
    inb_cache = {}
    elems = buf.elems
    patkey = id(tree)

    scoped = {"dotall": False}

    def inb(pos):
        r = inb_cache.get(pos)
        if r is None:
            if nconc is not None:
                r = z3.BoolVal(nconc >= pos + 1)
            else:
                r = z3.simplify(n >= pos + 1)
            inb_cache[pos] = r
        return r

    def step(pos, cond, key, pred_fn):
        if pos >= cap:
            return None
        ib = inb(pos)
        if z3.is_false(ib):
            return None
        t = _test(key, pred_fn, elems[pos])
        if z3.is_false(t):
            return None
        if execute:
            if not z3.is_true(ib) and not ctx().decide(ib):
                return None
            if not z3.is_true(t) and not ctx().decide(t):
                return None
            return cond
        add = [c for c in (ib, t) if not z3.is_true(c)]
        return cond + add if add else cond

    def also(cond, cnd):
        """conjoin a side condition (anchors, lookaround)"""
        if z3.is_true(cnd):
            return cond
        if execute:
            return cond if ctx().decide(cnd) else None
        return cond + [cnd]

    def at_end_cond(pos):
        if nconc is not None:
            return z3.BoolVal(nconc == pos)
        return n == pos

    def m_seq(seq, i, pos, cond, groups, k):
        if i == len(seq):
            return k(pos, cond, groups)
        return m_node(seq[i], pos, cond, groups, lambda p, c, g: m_seq(seq, i + 1, p, c, g, k))

    def m_node(node, pos, cond, groups, k):
        op, av = node
        if op is C.LITERAL:
            c = step(pos, cond, ("L", av, env.icase, env.ascii), lambda e: env.lit_pred(av, e))
            return k(pos + 1, c, groups) if c is not None else None
        if op is C.NOT_LITERAL:
            c = step(pos, cond, ("NL", av, env.icase, env.ascii), lambda e: z3.Not(env.lit_pred(av, e)))
            return k(pos + 1, c, groups) if c is not None else None
        if op is C.ANY:
            if (flags & re.DOTALL) or scoped["dotall"]:
                c = step(pos, cond, ("ANY1",), lambda e: z3.BoolVal(True))
            else:
                c = step(pos, cond, ("ANY",), lambda e: e != 10)
            return k(pos + 1, c, groups) if c is not None else None
        if op is C.IN:
            c = step(pos, cond, ("IN", patkey, id(av), env.icase), lambda e: env.in_pred(av, e))
            return k(pos + 1, c, groups) if c is not None else None
        if op is C.BRANCH:
            for b in av[1]:
                m_seq(list(b), 0, pos, cond, groups, k)
            return None
        if op is C.SUBPATTERN:
            gid, addf, delf, sub = av
            if delf or (addf & ~re.DOTALL):
                raise Unsupported("inline flags")
            outer = scoped["dotall"]
            inner = outer or bool(addf & re.DOTALL)    # (?s:...) -- scoped DOTALL

            def k2(p, c, g):
                if gid is not None:
                    g = dict(g)
                    g[gid] = (pos, p)
                # the continuation runs outside the group: restore the outer flag around it
                scoped["dotall"] = outer
                try:
                    return k(p, c, g)
                finally:
                    scoped["dotall"] = inner

            scoped["dotall"] = inner
            try:
                return m_seq(list(sub), 0, pos, cond, groups, k2)
            finally:
                scoped["dotall"] = outer
        if op in (C.MAX_REPEAT, C.MIN_REPEAT):
            lo, hi, sub = av
            sub = list(sub)
            greedy = op is C.MAX_REPEAT

            def rep(cnt, p, c, g):
                def more():
                    if cnt < hi and p < cap:
                        m_seq(
                            sub, 0, p, c, g,
                            lambda p2, c2, g2: rep(cnt + 1, p2, c2, g2) if (p2 > p or cnt < lo) else None,
                        )

                def stop():
                    if cnt >= lo:
                        k(p, c, g)

                if greedy:
                    more()
                    stop()
                else:
                    stop()
                    more()

            return rep(0, pos, cond, groups)
        if op is C.AT:
            if av is C.AT_END_STRING:
                ec = at_end_cond(pos)
                if z3.is_false(ec):
                    return None
                c2 = also(cond, ec)
                return k(pos, c2, groups) if c2 is not None else None
            if av is C.AT_END:
                ec = at_end_cond(pos)
                alts = [ec]
                if pos < cap:
                    if flags & re.MULTILINE:
                        alts.append(z3.And(inb(pos), elems[pos] == 10))
                    else:
                        alts.append(z3.And(at_end_cond(pos + 1), elems[pos] == 10))
                cnd = z3.simplify(z3.Or(*alts))
                if z3.is_false(cnd):
                    return None
                c2 = also(cond, cnd)
                return k(pos, c2, groups) if c2 is not None else None
            if av is C.AT_BEGINNING_STRING or (av is C.AT_BEGINNING and not flags & re.MULTILINE):
                if pos == 0:
                    return k(pos, cond, groups)
                return None
            if av is C.AT_BEGINNING:
                if pos == 0:
                    return k(pos, cond, groups)
                c2 = also(cond, elems[pos - 1] == 10)
                return k(pos, c2, groups) if c2 is not None else None
            raise Unsupported(f"AT {av}")
        if op in (C.ASSERT, C.ASSERT_NOT):
            direction, sub = av
            sub = list(sub)
            if direction > 0 and (len(sub) != 1 or sub[0][0] not in (C.LITERAL, C.NOT_LITERAL, C.IN, C.ANY)):
                # general lookahead: does the sub-pattern match at pos?  (captures inside a
                # lookahead are not kept)
                if execute:
                    class _LookFound(Exception):
                        pass

                    def hit(p2, c2, g2):
                        raise _LookFound()

                    try:
                        m_seq(sub, 0, pos, cond, groups, hit)
                        matched = False
                    except _LookFound:
                        matched = True
                    if matched == (op is C.ASSERT):
                        return k(pos, cond, groups)
                    return None
                alts = []
                m_seq(sub, 0, pos, [], {}, lambda p2, c2, g2: alts.append(z3.And(*c2) if len(c2) > 1 else (c2[0] if c2 else z3.BoolVal(True))))
                present = z3.Or(*alts) if alts else z3.BoolVal(False)
                cnd = z3.simplify(present if op is C.ASSERT else z3.Not(present))
                if z3.is_false(cnd):
                    return None
                c2 = also(cond, cnd)
                return k(pos, c2, groups) if c2 is not None else None
            # single-character assertions
            if len(sub) != 1 or sub[0][0] not in (C.LITERAL, C.NOT_LITERAL, C.IN, C.ANY):
                raise Unsupported("complex lookbehind")
            p = pos - 1 if direction < 0 else pos
            sop, sav = sub[0]
            if p < 0 or p >= cap:
                present = z3.BoolVal(False)
            else:
                e = elems[p]
                if sop is C.LITERAL:
                    t = env.lit_pred(sav, e)
                elif sop is C.NOT_LITERAL:
                    t = z3.Not(env.lit_pred(sav, e))
                elif sop is C.IN:
                    t = env.in_pred(sav, e)
                else:
                    t = e != 10 if not flags & re.DOTALL else z3.BoolVal(True)
                present = z3.And(inb(p), t) if direction > 0 else t
            cnd = z3.simplify(present if op is C.ASSERT else z3.Not(present))
            if z3.is_false(cnd):
                return None
            c2 = also(cond, cnd)
            return k(pos, c2, groups) if c2 is not None else None
        raise Unsupported(f"regex op {op}")

    def final(p, c, g):
        if execute:
            a = Alt(z3.BoolVal(True), p, g)
            if accept is None or accept(a):
                raise _Found(a)
            return
        count[0] += 1
        if count[0] > max_alts:
            raise BoundExceeded("too many regex alternatives")
        out.append(Alt(z3.And(*c) if len(c) > 1 else (c[0] if c else z3.BoolVal(True)), p, g))

    if s <= cap:
        m_seq(list(tree), 0, s, [], {}, final)
    return out


class SMatch:
    """match object over a symbolic subject"""

    def __init__(self, pat, buf, start, end, groups, ngroups, pos=0):
        self.re = pat
        self.string = buf
        self._s, self._e, self._g = start, end, groups
        self._ng = ngroups
        self.pos = pos
        self.lastindex = None

    def _span(self, g):
        if isinstance(g, str):
            g = self.re.groupindex[g]
        if g == 0:
            return self._s, self._e
        if not 0 < g <= self._ng:
            raise IndexError("no such group")
        return self._g.get(g)

    def start(self, g=0):
        sp = self._span(g)
        return -1 if sp is None else sp[0]

    def end(self, g=0):
        sp = self._span(g)
        return -1 if sp is None else sp[1]

    def span(self, g=0):
        sp = self._span(g)
        return (-1, -1) if sp is None else sp

    def group(self, *gs):
        if not gs:
            gs = (0,)
        out = []
        for g in gs:
            sp = self._span(g)
            out.append(None if sp is None else self.string[sp[0]: sp[1]].freeze())
        return out[0] if len(out) == 1 else tuple(out)

    def __getitem__(self, g):
        return self.group(g)

    def groups(self, default=None):
        out = []
        for g in range(1, self._ng + 1):
            sp = self._g.get(g)
            out.append(default if sp is None else self.string[sp[0]: sp[1]].freeze())
        return tuple(out)

    def groupdict(self, default=None):
        return {name: (self.group(i) if self._g.get(i) is not None else default) for name, i in self.re.groupindex.items()}

    def __bool__(self):
        return True


def _search(pat, buf: SSeq, pos=0, endpos=None, anchored=False, full=False, must_advance=False):
    buf = lift(buf)
    c = ctx()
    if isinstance(pat.pattern, str) != (buf.kind == "str"):
        raise TypeError("cannot use a string pattern on a bytes-like object")
    tree = parsed(pat)
    ngroups = tree.state.groups - 1
    if endpos is not None:
        raise Unsupported("regex endpos")
    if isinstance(pos, SInt):
        pos = c.concretize(pos.e)
    if pos < 0:
        pos = 0
    if c.fork_indices:
        n = buf.clen()
        if pos > n:
            return None
        starts = [pos] if anchored else range(pos, n + 1)
    else:
        n = None
        starts = [pos] if anchored else range(pos, buf.cap + 1)
    if c.fork_indices:
        try:
            return _search_compiled(pat, buf, pos, anchored, full, must_advance, starts, n, ngroups, c)
        except BoundExceeded:
            pass
        # too many alternatives to compile: execute the matcher
        for s in starts:
            def accept(a, s=s):
                if must_advance and s == pos and a.end == s:
                    return False
                if full and a.end != n:
                    return False
                return True
            try:
                alternatives(pat, buf, s, execute=True, accept=accept)
            except _Found as f:
                return SMatch(pat, buf, s, f.alt.end, dict(f.alt.groups), ngroups, pos)
        return None
    return _search_compiled(pat, buf, pos, anchored, full, must_advance, starts, n, ngroups, c)


def _search_compiled(pat, buf, pos, anchored, full, must_advance, starts, n, ngroups, c):
    entries = []
    counter = [0]
    for s in starts:
        if n is None:
            guard = z3.simplify(s <= buf.zn())
            if z3.is_false(guard):
                continue
        else:
            guard = None
        for a in alternatives(pat, buf, s, counter=counter, max_alts=COMPILE_ALTS if c.fork_indices else MAX_ALTS):
            cnd = a.cond
            if full:
                cnd = z3.And(cnd, buf.zn() == a.end)
            if must_advance and s == pos and a.end == s:
                continue
            if guard is not None and not z3.is_true(guard):
                cnd = z3.And(guard, cnd)
            cnd = z3.simplify(cnd)
            if z3.is_false(cnd):
                continue
            entries.append((cnd, s, a))
            if z3.is_true(cnd):
                break
        else:
            continue
        break
    if not entries:
        return None
    if c.fork_indices:
        # choose the first alternative that holds: fork over its index
        i = c.choose([e[0] for e in entries])
        if i < 0:
            return None
        cnd, s, a = entries[i]
        return SMatch(pat, buf, s, a.end, dict(a.groups), ngroups, pos)
    start_e = z3.IntVal(-1)
    end_e = z3.IntVal(-1)
    gs_e = {g: z3.IntVal(-1) for g in range(1, ngroups + 1)}
    ge_e = {g: z3.IntVal(-1) for g in range(1, ngroups + 1)}
    for cnd, s, a in reversed(entries):
        start_e = z3.If(cnd, s, start_e)
        end_e = z3.If(cnd, a.end, end_e)
        for g in gs_e:
            if g in a.groups:
                gs_e[g] = z3.If(cnd, a.groups[g][0], gs_e[g])
                ge_e[g] = z3.If(cnd, a.groups[g][1], ge_e[g])
            else:
                gs_e[g] = z3.If(cnd, -1, gs_e[g])
                ge_e[g] = z3.If(cnd, -1, ge_e[g])
    found = z3.Or(*[e[0] for e in entries])
    if not c.decide(found):
        return None
    groups = {}
    for g in gs_e:
        if c.decide(gs_e[g] >= 0):
            groups[g] = (mk_int(gs_e[g]), mk_int(ge_e[g]))
    return SMatch(pat, buf, mk_int(start_e), mk_int(end_e), groups, ngroups, pos)


def search(pat, buf, pos=0, endpos=None):
    return _search(pat, buf, pos, endpos)


def match(pat, buf, pos=0, endpos=None):
    return _search(pat, buf, pos, endpos, anchored=True)


def fullmatch(pat, buf, pos=0, endpos=None):
    return _search(pat, buf, pos, endpos, anchored=True, full=True)


def finditer(pat, buf, pos=0):
    buf = lift(buf)
    n = buf.clen()
    out = []
    p = pos
    must = False
    guard = 0
    while p <= n:
        guard += 1
        if guard > 4 * (n + 2):
            raise BoundExceeded("finditer")
        m = _search(pat, buf, p, must_advance=must)
        if m is None:
            break
        s, e = m._s, m._e
        if not isinstance(s, int):
            s = ctx().concretize(zi(s))
            e = ctx().concretize(zi(e))
            m._s, m._e = s, e
        out.append(m)
        must = e == s
        p = e
    return out


def findall(pat, buf, pos=0):
    tree = parsed(pat)
    ng = tree.state.groups - 1
    out = []
    empty = lift(buf).same([], 0)
    for m in finditer(pat, buf, pos):
        if ng == 0:
            out.append(m.group(0))
        elif ng == 1:
            g = m.group(1)
            out.append(empty if g is None else g)
        else:
            out.append(tuple(empty if g is None else g for g in m.groups()))
    return out


def _expand_template(repl, m):
    """expand a replacement template (concrete) for match m"""
    buf = m.string
    if isinstance(repl, SSeq):
        if not repl.is_concrete():
            raise Unsupported("symbolic replacement template")
        repl = repl.concrete()
    bs = "\\" if isinstance(repl, str) else b"\\"
    if bs not in repl:
        return lift(repl)
    tmpl = P.parse_template(repl, m.re)
    out = buf.same([], 0)
    if isinstance(tmpl, list):
        # py3.12: flat list  literal, group, literal, group, ..., literal
        for i, x in enumerate(tmpl):
            if i % 2 == 0:
                if x:
                    out = sconcat(out, lift(x))
            else:
                g = m.group(x)
                if g is not None:
                    out = sconcat(out, lift(g))
        return out
    try:
        # py3.11: (groups, literals)
        groups, literals = tmpl
        lits = list(literals)
        for idx, g in groups:
            lits[idx] = m.group(g) if m.group(g) is not None else None
        for x in lits:
            if x is None:
                continue
            out = sconcat(out, lift(x))
        return out
    except (TypeError, ValueError):
        raise Unsupported("replacement template form")


def sub(pat, repl, buf, count=0):
    buf = lift(buf)
    n = buf.clen()
    out = buf.same([], 0)
    cur = 0
    k = 0
    for m in finditer(pat, buf):
        if count and k >= count:
            break
        out = sconcat(out, buf[cur: m._s])
        if callable(repl):
            r = repl(m)
        else:
            r = _expand_template(repl, m)
        out = sconcat(out, lift(r))
        cur = m._e
        k += 1
    out = sconcat(out, buf[cur:])
    return out


def subn(pat, repl, buf, count=0):
    raise Unsupported("subn")


def split(pat, buf, maxsplit=0):
    buf = lift(buf)
    buf.clen()
    tree = parsed(pat)
    ng = tree.state.groups - 1
    out = []
    cur = 0
    k = 0
    for m in finditer(pat, buf):
        if maxsplit and k >= maxsplit:
            break
        out.append(buf[cur: m._s])
        for g in range(1, ng + 1):
            out.append(m.group(g))
        cur = m._e
        k += 1
    out.append(buf[cur:])
    return out


METHODS = {
    "search": search,
    "match": match,
    "fullmatch": fullmatch,
    "finditer": finditer,
    "findall": findall,
    "sub": lambda pat, repl, string, count=0: sub(pat, repl, string, count),
    "split": lambda pat, string, maxsplit=0: split(pat, string, maxsplit),
}
