"""Polymorphic helpers: the same oracle code runs on solver terms and on plain values."""
from __future__ import annotations

import z3

from . import core
from .core import SBool, SInt, sand, sor, snot, implies, ite, smin, smax, mk_bool
from .seq import SSeq, lift, bvv, chars_in, chars_not_in
from .interp import s_eq, s_contains, has_sym, is_sym

pand, por, pnot, pimplies, pmin, pmax, pite = sand, sor, snot, implies, smin, smax, ite


def peq(a, b):
    return s_eq(a, b)


def plen(x):
    if isinstance(x, SSeq):
        return x.slen()
    return len(x)


def pslice(x, a=None, b=None):
    if isinstance(x, SSeq):
        return x[a:b]
    if is_sym(a) or is_sym(b):
        return lift(bytes(x) if isinstance(x, bytearray) else x)[a:b]
    return x[a:b]


def pcontains(container, item):
    return s_contains(container, item)


def pstartswith(x, p):
    if isinstance(x, SSeq) or isinstance(p, SSeq):
        return lift(x).startswith(p)
    return x.startswith(p)


def pendswith(x, p):
    if isinstance(x, SSeq) or isinstance(p, SSeq):
        return lift(x).endswith(p)
    return x.endswith(p)


def pconcat(*xs):
    r = xs[0]
    for x in xs[1:]:
        r = r + x
    return r


def pfreeze(x):
    if isinstance(x, SSeq):
        return x.freeze()
    return bytes(x)


def pbytearray(size, fill=0, cap=8):
    """caller-owned buffer of (possibly symbolic) size"""
    if isinstance(size, SInt):
        return SSeq("bytearray", [bvv(fill)] * cap, size.e)
    return bytearray([fill]) * size


def pall_in(s, allowed):
    """every element of s within allowed (ints or (lo,hi) ranges)"""
    if isinstance(s, SSeq):
        return chars_in(s, allowed)
    rs = [(a, a) if isinstance(a, int) else tuple(a) for a in allowed]
    vals = [ord(c) for c in s] if isinstance(s, str) else list(s)
    return all(any(lo <= v <= hi for lo, hi in rs) for v in vals)


def pnone_in(s, banned):
    if isinstance(s, SSeq):
        return chars_not_in(s, banned)
    rs = [(a, a) if isinstance(a, int) else tuple(a) for a in banned]
    vals = [ord(c) for c in s] if isinstance(s, str) else list(s)
    return not any(any(lo <= v <= hi for lo, hi in rs) for v in vals)


def pbool(x):
    """truthiness without forking where possible"""
    if isinstance(x, SBool):
        return x
    if isinstance(x, SInt):
        return x != 0
    if isinstance(x, SSeq):
        return x.slen() > 0
    return bool(x)


def pint(x):
    """int(text) for plain or symbolic text"""
    if isinstance(x, SSeq):
        from .fmt import seq_to_int

        return seq_to_int(x)
    return int(x)


def pstr(x):
    if isinstance(x, (SInt, SSeq)):
        from .fmt import to_str

        return to_str(x)
    return str(x)
