from .core import *  # noqa
