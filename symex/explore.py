"""symex.explore -- path exploration, counterexample replay, per-path validation.

A harness *body* is a plain function  body(I, X, **params) -> (ok, obs)  that is run
twice per explored path:

  * symbolically: I is an Interp (real werkzeug source, interpreted), X hands out
    solver variables; `ok` is a bool/SBool "the property holds", `obs` any structure of
    observable results;
  * natively: I is a NativeInterp (plain CPython calls into the real package), X hands
    out the concrete values of a solver model.  `ok` is then a plain bool computed by
    the same oracle code on plain Python values.

A violation is only reported when the native run says ok == False.  For every other
path a model of the path condition is replayed natively and its observation compared
with the symbolic observation evaluated under the model (translation validation of the
engine, on every run).
"""
from __future__ import annotations

import json
import time
import traceback

import z3

from . import core
from .core import BoundExceeded, Ctx, Inconclusive, PathAbort, SBool, SInt, Unsupported, zb, zi
from .interp import Interp, NativeInterp
from .seq import SSeq
from .symdict import SymDict, SymSet


class AssumptionFailed(Exception):
    pass


class SymInputs:
    """hands out symbolic inputs; remembers them for model extraction"""

    symbolic = True

    def __init__(self, c: Ctx, active_known=()):
        self.c = c
        self.order = []
        self.vals = {}
        self.active_known = set(active_known)
        self.known_hit = []

    def _reg(self, name, v):
        if name in self.vals:
            raise RuntimeError(f"duplicate input {name}")
        self.vals[name] = v
        self.order.append(name)
        return v

    def int(self, name, lo=None, hi=None):
        if self.c.bv_ints and lo is not None and hi is not None and max(abs(lo), abs(hi)) < (1 << 48):
            return self._reg(name, core.sym_int_bv(name, lo, hi))
        v = z3.Int(name)
        if lo is not None:
            self.c.add(v >= lo)
        if hi is not None:
            self.c.add(v <= hi)
        return self._reg(name, SInt(v))

    def bool(self, name):
        return self._reg(name, SBool(z3.Bool(name)))

    def real(self, name, lo=None, hi=None):
        return self._reg(name, core.sym_real(name, lo, hi))

    def flag(self, name):
        """a boolean that is forked immediately (returns a Python bool)"""
        return bool(self.bool(name))

    def choice(self, name, options):
        """pick one of a small list by forking; returns the concrete option"""
        options = list(options)
        i = self.int(name, 0, len(options) - 1)
        return options[self.c.concretize(i.e)]

    def cint(self, name, lo, hi):
        """an int in lo..hi forked into its concrete values"""
        return self.c.concretize(self.int(name, lo, hi).e)

    def bytes(self, name, cap, minlen=0, fork_len=None):
        s = SSeq.fresh(name, cap, "bytes", minlen, fork_len=fork_len)
        self._reg(name, self.c.inputs[name])
        return s

    def str(self, name, cap, minlen=0, maxcp=None, fork_len=None):
        s = SSeq.fresh(name, cap, "str", minlen, maxcp, fork_len=fork_len)
        self._reg(name, self.c.inputs[name])
        return s

    def assume(self, cond):
        if isinstance(cond, bool):
            if not cond:
                raise PathAbort()
            return
        self.c.assume(cond)

    def known(self, kid, cond):
        """exclude the input region of a listed known finding (only while that finding
        still reproduces on the current tree)"""
        if kid in self.active_known:
            self.assume(core.snot(cond))

    def model_values(self, model):
        out = {}
        for name in self.order:
            out[name] = concretize_value(model, self.vals[name])
        return out


class NativeInputs:
    symbolic = False

    def __init__(self, assignment, strict=True):
        self.a = dict(assignment)
        self.missing = []
        self.strict = strict

    def _get(self, name, default):
        if name in self.a:
            return self.a[name]
        self.missing.append(name)
        return default

    def int(self, name, lo=None, hi=None):
        return self._get(name, lo if lo is not None else 0)

    def bool(self, name):
        return self._get(name, False)

    def real(self, name, lo=None, hi=None):
        return self._get(name, float(lo if lo is not None else 0))

    flag = bool

    def choice(self, name, options):
        options = list(options)
        return options[self._get(name, 0)]

    def cint(self, name, lo, hi):
        return self._get(name, lo)

    def bytes(self, name, cap, minlen=0, fork_len=None):
        return self._get(name, b"\0" * minlen)

    def str(self, name, cap, minlen=0, maxcp=None, fork_len=None):
        return self._get(name, "\0" * minlen)

    def assume(self, cond):
        if not cond:
            raise AssumptionFailed()

    def known(self, kid, cond):
        pass


def concretize_value(model, v):
    """evaluate a (possibly symbolic) structure under a model -> plain Python"""
    if isinstance(v, SInt):
        return model.eval(v.e, model_completion=True).as_long()
    if isinstance(v, SBool):
        return z3.is_true(model.eval(v.e, model_completion=True))
    if isinstance(v, core.SReal):
        r = model.eval(v.e, model_completion=True)
        return float(r.as_fraction()) if hasattr(r, "as_fraction") else float(str(r))
    if isinstance(v, SSeq):
        n = v.n if isinstance(v.n, int) else model.eval(v.n, model_completion=True).as_long()
        vals = [model.eval(e, model_completion=True).as_long() for e in v.elems[:n]]
        if v.kind == "str":
            return "".join(map(chr, vals))
        if v.kind == "bytearray":
            return bytearray(vals)
        return bytes(vals)
    if isinstance(v, SymDict):
        return {freeze(concretize_value(model, k)): concretize_value(model, x) for k, x in v.s_items()}
    if isinstance(v, SymSet):
        return sorted((freeze(concretize_value(model, x)) for x in v), key=repr)
    if isinstance(v, tuple):
        return tuple(concretize_value(model, x) for x in v)
    if isinstance(v, list):
        return [concretize_value(model, x) for x in v]
    if type(v) is dict:
        return {k: concretize_value(model, x) for k, x in v.items()}
    return v


def freeze(k):
    if isinstance(k, bytearray):
        return bytes(k)
    if isinstance(k, list):
        return tuple(k)
    return k


def normalize_obs(v):
    """make observations comparable between symbolic and native runs"""
    if isinstance(v, bytearray):
        return bytes(v)
    if isinstance(v, (set, frozenset)):
        return sorted((normalize_obs(x) for x in v), key=repr)
    if isinstance(v, (tuple, list)):
        return [normalize_obs(x) for x in v]
    if isinstance(v, dict):
        return {repr(normalize_obs(k)) if not isinstance(k, str) else k: normalize_obs(x) for k, x in v.items()}
    if isinstance(v, (str, bytes, int, bool, float, type(None))):
        return v
    return repr(v)


def jsonable(v):
    if isinstance(v, (bytes, bytearray)):
        return {"__bytes__": bytes(v).decode("latin-1")}
    if isinstance(v, str):
        # JSON cannot carry lone surrogates portably; escape explicitly
        if any(0xD800 <= ord(c) <= 0xDFFF for c in v):
            return {"__str_cps__": [ord(c) for c in v]}
        return v
    if isinstance(v, (tuple, list)):
        return [jsonable(x) for x in v]
    if isinstance(v, dict):
        return {str(k): jsonable(x) for k, x in v.items()}
    if isinstance(v, (int, bool, float, type(None))):
        return v
    return repr(v)


def unjson(v):
    if isinstance(v, dict):
        if "__bytes__" in v and len(v) == 1:
            return v["__bytes__"].encode("latin-1")
        if "__str_cps__" in v and len(v) == 1:
            return "".join(map(chr, v["__str_cps__"]))
        return {k: unjson(x) for k, x in v.items()}
    if isinstance(v, list):
        return [unjson(x) for x in v]
    return v


class PathResult:
    __slots__ = ("kind", "detail", "assignment", "obs")

    def __init__(self, kind, detail=None, assignment=None, obs=None):
        self.kind, self.detail, self.assignment, self.obs = kind, detail, assignment, obs


class Result:
    def __init__(self, name):
        self.name = name
        self.paths = 0
        self.verified = 0
        self.aborted = 0
        self.decisions = 0
        self.queries = 0
        self.solver_time = 0.0
        self.validated = 0
        self.violations = []  # confirmed: {assignment, obs_native, ...}
        self.engine_errors = []
        self.inconclusive = []
        self.samples = []
        self.funcs = {}
        self.wall = 0.0
        self.witness_ok = None
        self.complete = True

    def as_dict(self):
        return {k: getattr(self, k) for k in (
            "name", "paths", "verified", "aborted", "decisions", "queries", "solver_time", "validated",
            "violations", "engine_errors", "inconclusive", "samples", "funcs", "wall", "witness_ok", "complete")}


def run_native(body, params, assignment, stubs_native=None):
    """plain CPython run of the harness body on concrete inputs"""
    saved = core._ctx
    core.set_ctx(None)
    try:
        X = NativeInputs(assignment)
        I = NativeInterp()
        try:
            ok, obs = body(I, X, **params)
        except AssumptionFailed:
            return "assumption_failed", None, X
        return bool(ok), normalize_obs(obs), X
    finally:
        core.set_ctx(saved)


NATIVE_HANG_S = 10


class NativeTimeout(BaseException):
    pass


def run_native_timed(body, params, assignment, seconds):
    """run_native under a wall-clock limit (SIGALRM; main thread of a worker process)"""
    import signal

    def on_alarm(signum, frame):
        raise NativeTimeout()

    old = signal.signal(signal.SIGALRM, on_alarm)
    signal.setitimer(signal.ITIMER_REAL, seconds)
    try:
        return run_native(body, params, assignment)
    finally:
        signal.setitimer(signal.ITIMER_REAL, 0)
        signal.signal(signal.SIGALRM, old)


def explore(body, params=None, name="", *, max_paths=20000, budget_s=None, stop_on_violation=True,
            validate=True, interp_kwargs=None, ctx_kwargs=None, active_known=(), max_samples=4,
            witness=False):
    """Explore all paths of body.  With witness=True the property is replaced by False:
    the run must then produce a (replayed) 'violation' -- a reachability witness."""
    params = params or {}
    res = Result(name)
    t0 = time.time()
    stack = [[]]
    interp_kwargs = interp_kwargs or {}
    ctx_kwargs = ctx_kwargs or {}
    while stack:
        prefix = stack.pop()
        if res.paths >= max_paths:
            res.inconclusive.append(f"max_paths {max_paths} reached with {len(stack) + 1} prefixes pending")
            res.complete = False
            break
        if budget_s is not None and time.time() - t0 > budget_s:
            res.inconclusive.append(f"time budget {budget_s}s reached with {len(stack) + 1} prefixes pending")
            res.complete = False
            break
        c = Ctx(prefix, **ctx_kwargs)
        for k in ("max_cp", "max_digits", "buf_cap"):
            if k in params.get("_ctx", {}):
                setattr(c, k, params["_ctx"][k])
        core.set_ctx(c)
        res.paths += 1
        I = Interp(**interp_kwargs)
        c.interp = I   # models that must run user-registered callbacks (codec error handlers) use it
        X = SymInputs(c, active_known)
        bparams = {k: v for k, v in params.items() if k != "_ctx"}
        try:
            try:
                ok, obs = body(I, X, **bparams)
            finally:
                res.funcs.update(I.funcs_seen)
            if witness:
                ok = False
            neg = z3.Not(zb(ok)) if not isinstance(ok, bool) else z3.BoolVal(not ok)
            m = c.feasible(neg)
            if m is not None:
                assignment = X.model_values(m)
                core.set_ctx(None)
                okn, obsn, XN = run_native(body, bparams, assignment)
                if witness:
                    if okn == "assumption_failed":
                        res.engine_errors.append({"what": "witness model fails an assumption natively", "assignment": jsonable(assignment)})
                    else:
                        res.witness_ok = True
                        res.samples.append({"witness_inputs": jsonable(assignment), "obs": jsonable(obsn)})
                        stack.clear()
                        break
                elif okn is False:
                    res.violations.append({"assignment": jsonable(assignment), "obs_native": jsonable(obsn), "params": jsonable(bparams)})
                    if stop_on_violation:
                        res.complete = False
                        res.queries += c.nqueries
                        res.solver_time += c.solver_time
                        res.decisions += c.ndecisions
                        break
                else:
                    res.engine_errors.append({
                        "what": "solver model does not reproduce natively" if okn is True else "solver model fails an assumption natively",
                        "assignment": jsonable(assignment), "obs_native": jsonable(obsn), "trace": repr(c.trace)[:400],
                        "obs_sym": jsonable(normalize_obs(concretize_value(m, obs)))})
            else:
                res.verified += 1
                if validate:
                    m = c.feasible()
                    if m is None:
                        res.aborted += 1
                    else:
                        assignment = X.model_values(m)
                        obs_sym = normalize_obs(concretize_value(m, obs))
                        core.set_ctx(None)
                        okn, obsn, XN = run_native(body, bparams, assignment)
                        if okn is not True or obsn != obs_sym:
                            res.engine_errors.append({
                                "what": "per-path validation mismatch", "ok_native": okn,
                                "assignment": jsonable(assignment), "obs_native": jsonable(obsn),
                                "obs_sym": jsonable(obs_sym), "trace": repr(c.trace)[:400]})
                        else:
                            res.validated += 1
                            if len(res.samples) < max_samples:
                                res.samples.append({"inputs": jsonable(assignment), "obs": jsonable(obsn)})
        except PathAbort:
            res.aborted += 1
        except BoundExceeded as e:
            # an unwinding bound was hit.  For loop / recursion bounds, run the real code on a
            # model of this path under a wall-clock limit: if it does not come back either, the
            # non-termination is real (a violation of any property that promises an outcome);
            # otherwise the bound was merely too small for this input: inconclusive.
            hung = False
            if not witness and ("loop" in str(e) or "recursion" in str(e)):
                try:
                    m = c.feasible()
                    if m is not None:
                        assignment = X.model_values(m)
                        core.set_ctx(None)
                        try:
                            run_native_timed(body, bparams, assignment, NATIVE_HANG_S)
                        except NativeTimeout:
                            hung = True
                            res.violations.append({"assignment": jsonable(assignment), "params": jsonable(bparams),
                                                   "obs_native": {"non_termination": True, "native_run_exceeded_s": NATIVE_HANG_S,
                                                                  "bound": str(e)}})
                        except Exception:
                            pass
                except BaseException:
                    pass
            res.complete = False
            if hung:
                if stop_on_violation:
                    res.queries += c.nqueries
                    res.solver_time += c.solver_time
                    res.decisions += c.ndecisions
                    core.set_ctx(None)
                    break
            else:
                res.inconclusive.append(f"bound exceeded: {e}")
        except Inconclusive as e:
            res.inconclusive.append(f"solver unknown: {e}")
            res.complete = False
        except Unsupported as e:
            import os

            where = ""
            if os.environ.get("SYMEX_TRACE_UNSUPPORTED"):
                where = " @ " + " > ".join(getattr(e, "symex_stack", []))[-400:]
            res.inconclusive.append(f"unsupported: {e}{where}")
            res.complete = False
        except Exception as e:
            # an exception the harness did not expect.  If the real code raises the same
            # exception natively on a model of this path it is the code's behaviour (the
            # property's outcome was not produced: a violation); otherwise an engine bug.
            tb = traceback.format_exc()[-3000:]
            handled = False
            try:
                m = c.feasible()
                if m is not None:
                    assignment = X.model_values(m)
                    core.set_ctx(None)
                    try:
                        run_native(body, bparams, assignment)
                    except Exception as e2:
                        if type(e2) is type(e):
                            handled = True
                            if not witness:
                                res.violations.append({"assignment": jsonable(assignment), "params": jsonable(bparams),
                                                       "obs_native": {"unexpected_exception": type(e2).__name__, "msg": str(e2)[:200]}})
                                res.complete = False
            except BaseException:
                pass
            if not handled:
                res.engine_errors.append({"what": "exception escaped harness body", "exc": repr(e), "tb": tb,
                                          "trace": repr(c.trace)[:300]})
            elif stop_on_violation and not witness:
                res.queries += c.nqueries
                res.solver_time += c.solver_time
                res.decisions += c.ndecisions
                core.set_ctx(None)
                break
        finally:
            core.set_ctx(None)
        stack.extend(c.pending)
        res.queries += c.nqueries
        res.solver_time += c.solver_time
        res.decisions += c.ndecisions
    res.wall = time.time() - t0
    if witness and res.witness_ok is None:
        res.witness_ok = False
    return res
