"""symex.seq -- bounded symbolic sequences: bytes, bytearray and str.

An SSeq is a vector `elems` of z3 bit-vectors (8 bit for bytes, 21 bit for str code
points) together with a length `n` that is either a Python int or a z3 Int term
(0 <= n <= len(elems)).  Core operations (slice, concat, ==, find, startswith,
regex) accept a symbolic length; every other string method first *forks* the length
into its feasible concrete values (Ctx.concretize) and then works element-wise, so
content stays solver-quantified while structure is enumerated by path forking.
"""
from __future__ import annotations

import z3

from .core import (
    BoundExceeded,
    SBool,
    SInt,
    Unsupported,
    ctx,
    mk_bool,
    mk_int,
    mk_int_bv,
    sand,
    snot,
    sor,
    zb,
    zi,
)

WB = 8  # bytes element width
WS = 21  # str element width (code points up to 0x10FFFF)


def width(kind):
    return WS if kind == "str" else WB


def bvv(x, w=WB):
    return z3.BitVecVal(x, w)


def _is_cint(n):
    return isinstance(n, int)


_int_asts = {}


def _int_ast(i):
    v = _int_asts.get(i)
    if v is None:
        v = _int_asts[i] = z3.IntVal(i)
    return v.as_ast()


def _ite_select(elems, idx, w):
    """elems[idx] for a symbolic Int idx; out of range -> 0.
    Built with the raw C API: z3py's coercions dominate run time otherwise."""
    idx = z3.simplify(idx)
    if z3.is_int_value(idx):
        i = idx.as_long()
        if 0 <= i < len(elems):
            return elems[i]
        return bvv(0, w)
    if not elems:
        return bvv(0, w)
    zc = z3.z3core
    c = idx.ctx
    cr = c.ref()
    ia = idx.as_ast()
    zero = bvv(0, w)
    r = zero.as_ast()
    owned = False
    # NB: in a ref-counted context only the most recent API result is kept alive by
    # z3 itself, so the running chain must be pinned explicitly.
    for i in reversed(range(len(elems))):
        eq = zc.Z3_mk_eq(cr, ia, _int_ast(i))
        nr = zc.Z3_mk_ite(cr, eq, elems[i].as_ast(), r)
        zc.Z3_inc_ref(cr, nr)
        if owned:
            zc.Z3_dec_ref(cr, r)
        r, owned = nr, True
    res = z3.BitVecRef(r, c)
    if owned:
        zc.Z3_dec_ref(cr, r)
    return res


_WS_STR = None
_WS_BYTES = b" \t\n\r\x0b\x0c"


def unicode_whitespace():
    global _WS_STR
    if _WS_STR is None:
        _WS_STR = [c for c in range(0x110000) if chr(c).isspace()]
    return _WS_STR


def ranges_of(cps):
    """sorted code points -> list of inclusive ranges"""
    out = []
    for c in cps:
        if out and out[-1][1] == c - 1:
            out[-1][1] = c
        else:
            out.append([c, c])
    return [tuple(r) for r in out]


_ub_cache = {}
VAR_UB = {}  # variable name -> upper bound asserted when the variable was created


def upper_bound(e, depth=0):
    """a sound syntactic upper bound on the unsigned value of a bit-vector term"""
    k = e.get_id()
    hit = _ub_cache.get(k)
    if hit is not None:
        return hit[0]
    w = e.size()
    top = (1 << w) - 1
    r = top
    try:
        if z3.is_bv_value(e):
            r = e.as_long()
        elif z3.is_const(e):
            # a variable: only bounds registered at creation are used
            r = min(top, VAR_UB.get(e.decl().name(), top))
        elif depth < 12:
            kind = e.decl().kind()
            ch = e.children()
            if kind == z3.Z3_OP_ITE:
                r = max(upper_bound(ch[1], depth + 1), upper_bound(ch[2], depth + 1))
            elif kind == z3.Z3_OP_ZERO_EXT:
                r = upper_bound(ch[0], depth + 1)
            elif kind == z3.Z3_OP_EXTRACT:
                hi, lo = e.params()
                r = min((1 << (hi - lo + 1)) - 1, upper_bound(ch[0], depth + 1) >> lo if lo == 0 else (1 << (hi - lo + 1)) - 1)
            elif kind == z3.Z3_OP_BADD and len(ch) == 2:
                a, b = upper_bound(ch[0], depth + 1), upper_bound(ch[1], depth + 1)
                r = a + b if a + b <= top else top
            elif kind == z3.Z3_OP_BAND:
                r = min(upper_bound(c, depth + 1) for c in ch)
            elif kind == z3.Z3_OP_BOR and len(ch) == 2:
                a, b = upper_bound(ch[0], depth + 1), upper_bound(ch[1], depth + 1)
                m = max(a, b)
                r = min(top, (1 << m.bit_length()) - 1)
            elif kind == z3.Z3_OP_CONCAT:
                # zero-extension shows up as concat(0, x) after simplification
                if all(z3.is_bv_value(c) and c.as_long() == 0 for c in ch[:-1]):
                    r = upper_bound(ch[-1], depth + 1)
    except Exception:
        r = top
    if len(_ub_cache) > 100000:
        _ub_cache.clear()
    _ub_cache[k] = (r, e)
    return r


def clip_ranges(ranges, ub):
    out = []
    for lo, hi in ranges:
        if lo > ub:
            break
        out.append((lo, min(hi, ub)))
    return out


def in_ranges(e, ranges):
    if len(ranges) > 8:
        ranges = clip_ranges(ranges, upper_bound(e))
    ds = []
    for lo, hi in ranges:
        if lo == hi:
            ds.append(e == lo)
        else:
            ds.append(z3.And(z3.UGE(e, lo), z3.ULE(e, hi)))
    if not ds:
        return z3.BoolVal(False)
    return z3.Or(*ds) if len(ds) > 1 else ds[0]


_case_tables = {}


def _case_table(which, maxcp):
    """runs (lo, hi, delta) with f(c) == c + delta, single-char mappings only;
    also the list of code points whose mapping is not a single char"""
    k = (which, maxcp)
    if k not in _case_tables:
        runs = []
        multi = []
        for c in range(maxcp + 1):
            m = getattr(chr(c), which)()
            if len(m) != 1:
                multi.append(c)
                continue
            d = ord(m) - c
            if d == 0:
                continue
            if runs and runs[-1][1] == c - 1 and runs[-1][2] == d:
                runs[-1][1] = c
            else:
                runs.append([c, c, d])
        _case_tables[k] = ([tuple(r) for r in runs], multi)
    return _case_tables[k]


class SSeq:
    __slots__ = ("kind", "elems", "n")

    def __init__(self, kind, elems, n):
        self.kind = kind
        self.elems = list(elems)
        if isinstance(n, SInt):
            n = n.e
        if isinstance(n, z3.ExprRef):
            n = z3.simplify(n)
            if z3.is_int_value(n):
                n = n.as_long()
        if _is_cint(n):
            self.elems = self.elems[:n]
        self.n = n

    # ------------------------------------------------------------ construction
    @property
    def w(self):
        return width(self.kind)

    @property
    def cap(self):
        return len(self.elems)

    @property
    def mutable(self):
        return self.kind == "bytearray"

    @classmethod
    def const(cls, v):
        if isinstance(v, str):
            return cls("str", [bvv(ord(c), WS) for c in v], len(v))
        if isinstance(v, bytearray):
            return cls("bytearray", [bvv(c) for c in v], len(v))
        if isinstance(v, (bytes, memoryview)):
            v = bytes(v)
            return cls("bytes", [bvv(c) for c in v], len(v))
        raise TypeError(v)

    @classmethod
    def fresh(cls, name, cap, kind="bytes", minlen=0, maxcp=None, fork_len=None):
        """a fresh symbolic sequence of length minlen..cap.  For str, code points are
        constrained to <= maxcp (default: the context's max_cp)."""
        c = ctx()
        w = width(kind)
        elems = [z3.BitVec(f"{name}_{i}", w) for i in range(cap)]
        if kind == "str":
            if maxcp is None:
                maxcp = getattr(c, "max_cp", 0xFF)
            for e in elems:
                c.solver.add(z3.ULE(e, maxcp))
                VAR_UB[e.decl().name()] = maxcp
        n = z3.Int(f"{name}_len")
        c.solver.add(n >= minlen, n <= cap)
        c.model = None
        s = cls(kind, elems, n)
        c.inputs[name] = cls(kind, elems, n)
        if fork_len if fork_len is not None else c.fork_indices:
            s.clen()
        return s

    def same(self, elems, n, kind=None):
        k = kind or self.kind
        if k == "bytearray" and kind is None:
            k = "bytes"
        return SSeq(k, elems, n)

    # ---------------------------------------------------------------- length
    def zn(self):
        return z3.IntVal(self.n) if _is_cint(self.n) else self.n

    def slen(self):
        return self.n if _is_cint(self.n) else mk_int(self.n)

    def clen(self) -> int:
        """fork the length into a concrete value (in place)"""
        if not _is_cint(self.n):
            v = ctx().concretize(self.n)
            self.n = v
            self.elems = self.elems[:v]
        return self.n

    def celems(self):
        self.clen()
        return self.elems

    def __len__(self):
        return self.clen()

    def __bool__(self):
        if _is_cint(self.n):
            return self.n > 0
        return ctx().decide(self.n > 0)

    __hash__ = None

    def is_concrete(self):
        return _is_cint(self.n) and all(z3.is_bv_value(e) for e in self.elems)

    def concrete(self):
        vals = [e.as_long() for e in self.elems[: self.n]]
        if self.kind == "str":
            return "".join(map(chr, vals))
        if self.kind == "bytearray":
            return bytearray(vals)
        return bytes(vals)

    def maybe_concrete(self):
        """return the native value if fully concrete, else self"""
        if self.is_concrete():
            return self.concrete()
        return self

    def __repr__(self):
        if self.is_concrete():
            return f"S{self.kind}({self.concrete()!r})"
        return f"S{self.kind}(cap={self.cap}, n={self.n})"

    def freeze(self):
        return SSeq("bytes" if self.kind == "bytearray" else self.kind, self.elems, self.n)

    def thaw(self):
        return SSeq("bytearray", self.elems, self.n)

    # -------------------------------------------------------------- coercion
    def _coerce(self, o):
        if isinstance(o, SSeq):
            if (o.kind == "str") != (self.kind == "str"):
                return None
            return o
        if self.kind == "str":
            if isinstance(o, str):
                return SSeq.const(o)
            return None
        if isinstance(o, (bytes, bytearray, memoryview)):
            return SSeq.const(bytes(o))
        return None

    def _need(self, o, what="operand"):
        r = self._coerce(o)
        if r is None:
            raise TypeError(f"{what}: {self.kind} vs {type(o).__name__}")
        return r

    # -------------------------------------------------------------- indexing
    def _cidx(self, i):
        """make an index concrete when index forking is on"""
        if isinstance(i, SBool):
            i = SInt(zi(i))
        if isinstance(i, SInt):
            if ctx().fork_indices:
                return ctx().concretize(i.e)
            return i
        if i is None:
            return None
        if isinstance(i, int):
            return int(i)
        if hasattr(i, "__index__"):
            return i.__index__()
        raise TypeError(f"indices must be integers, not {type(i).__name__}")

    def _norm_index(self, i, clamp):
        n = self.zn()
        i = zi(i)
        i = z3.If(i < 0, i + n, i)
        if clamp:
            i = z3.If(i < 0, 0, z3.If(i > n, n, i))
        return z3.simplify(i)

    def __getitem__(self, k):
        if isinstance(k, slice):
            if k.step not in (None, 1):
                if k.step == -1 and k.start is None and k.stop is None:
                    return self.same(list(reversed(self.celems())), self.n)
                raise Unsupported("slice step")
            start, stop = self._cidx(k.start), self._cidx(k.stop)
            if (start is None or isinstance(start, int)) and (stop is None or isinstance(stop, int)):
                if _is_cint(self.n) or ctx().fork_indices or (
                    (start is None or start >= 0) and stop is None and False
                ):
                    n = self.clen()
                    return self.same(self.elems[:n][slice(start, stop)], len(range(*slice(start, stop).indices(n))))
            lo = self._norm_index(0 if start is None else start, True)
            hi = self._norm_index(self.zn() if stop is None else stop, True)
            newn = z3.simplify(z3.If(hi > lo, hi - lo, 0))
            if z3.is_int_value(lo):
                elems = self.elems[lo.as_long():]
            else:
                elems = [_ite_select(self.elems, lo + j, self.w) for j in range(self.cap)]
            if z3.is_int_value(newn):
                newn = newn.as_long()
                elems = elems[:newn]
            return self.same(elems, newn)
        k = self._cidx(k)
        if isinstance(k, int) and _is_cint(self.n):
            if not -self.n <= k < self.n:
                raise IndexError("index out of range")
            e = self.elems[k]
        else:
            n = self.zn()
            i = self._norm_index(k, False)
            if not ctx().decide(z3.And(i >= 0, i < n)):
                raise IndexError("index out of range")
            e = _ite_select(self.elems, i, self.w)
        if self.kind == "str":
            return SSeq("str", [e], 1)
        return mk_int_bv(e)

    def __iter__(self):
        for e in list(self.celems()):
            if self.kind == "str":
                yield SSeq("str", [e], 1)
            else:
                yield mk_int_bv(e)

    def ord_at(self, i):
        return mk_int_bv(self.elems[i])

    # ------------------------------------------------------------- mutation
    def _set(self, r):
        self.elems, self.n = list(r.elems), r.n

    def extend(self, o):
        if isinstance(o, (list, tuple)):
            o = SSeq("bytes", [_int_to_bv(x, WB) for x in o], len(o))
        self._set(sconcat(self, self._need(o)))

    def append(self, x):
        self._set(sconcat(self, SSeq("bytes", [_int_to_bv(x, WB)], 1)))

    def __iadd__(self, o):
        if self.mutable:
            self.extend(o)
            return self
        return self.__add__(o)

    def __setitem__(self, k, v):
        if not self.mutable:
            raise TypeError(f"'{self.kind}' object does not support item assignment")
        if isinstance(k, slice):
            if k.step is not None:
                raise Unsupported("setitem slice step")
            v = self._need(v)
            lo = 0 if k.start is None else k.start
            hi = self.slen() if k.stop is None else k.stop
            r = sconcat(sconcat(self[:lo], v), self[hi:])
            self._set(r)
            return
        k = self._cidx(k)
        n = self.clen()
        if not isinstance(k, int):
            k = ctx().concretize(zi(k))
        if not -n <= k < n:
            raise IndexError("bytearray index out of range")
        self.elems[k] = _int_to_bv(v, WB)

    def __delitem__(self, k):
        if not self.mutable:
            raise TypeError(f"'{self.kind}' object doesn't support item deletion")
        if not isinstance(k, slice) or k.step is not None:
            raise Unsupported("del form")
        if k.start is None and k.stop is None:
            self.elems, self.n = [], 0
            return
        if k.start is None:
            r = self[k.stop:]
        elif k.stop is None:
            r = self[: k.start]
        else:
            r = sconcat(self[: k.start], self[k.stop:])
        self._set(r)

    def clear(self):
        self.elems, self.n = [], 0

    # ----------------------------------------------------------- comparison
    def __eq__(self, o):
        o = self._coerce(o)
        if o is None:
            return False
        if _is_cint(self.n) and _is_cint(o.n):
            if self.n != o.n:
                return False
            return mk_bool(z3.And(*[a == b for a, b in zip(self.elems, o.elems)])) if self.n else True
        cap = min(self.cap, o.cap)
        n = self.zn()
        cs = [n == o.zn()]
        for i in range(cap):
            cs.append(z3.Or(n <= i, self.elems[i] == o.elems[i]))
        if self.cap != o.cap:
            cs.append(n <= cap)
        return mk_bool(z3.And(*cs))

    def __ne__(self, o):
        return snot(self.__eq__(o))

    def _lex(self, o, strict_less, or_equal):
        o = self._need(o)
        a, b = self.celems(), o.celems()
        # result for exhausted prefix
        if len(a) < len(b):
            r = z3.BoolVal(True)
        elif len(a) == len(b):
            r = z3.BoolVal(or_equal)
        else:
            r = z3.BoolVal(False)
        for x, y in reversed(list(zip(a, b))):
            r = z3.If(x == y, r, z3.ULT(x, y))
        return mk_bool(r)

    def __lt__(self, o):
        return self._lex(o, True, False)

    def __le__(self, o):
        return self._lex(o, True, True)

    def __gt__(self, o):
        return snot(self.__le__(o))

    def __ge__(self, o):
        return snot(self.__lt__(o))

    # -------------------------------------------------------------- concat
    def __add__(self, o):
        o = self._coerce(o)
        if o is None:
            return NotImplemented
        r = sconcat(self, o)
        if self.kind == "bytearray":
            r.kind = "bytearray"
        return r

    def __radd__(self, o):
        o = self._coerce(o)
        if o is None:
            return NotImplemented
        return sconcat(o, self)

    def __mul__(self, k):
        k = self._cidx(k)
        if not isinstance(k, int):
            k = ctx().concretize(zi(k))
        return self.same(self.celems() * max(k, 0), self.n * max(k, 0))

    __rmul__ = __mul__

    # ------------------------------------------------------------- searching
    def _hit(self, sub, p):
        """z3 condition: self[p:p+len(sub)] == sub, for concrete-length sub (SSeq)"""
        m = sub.n
        if p + m > self.cap:
            return z3.BoolVal(False)
        cs = []
        if not _is_cint(self.n):
            cs.append(self.n >= p + m)
        elif self.n < p + m:
            return z3.BoolVal(False)
        for k in range(m):
            a, b = self.elems[p + k], sub.elems[k]
            if z3.is_bv_value(a) and z3.is_bv_value(b):
                if a.as_long() != b.as_long():
                    return z3.BoolVal(False)
                continue
            cs.append(a == b)
        if not cs:
            return z3.BoolVal(True)
        return z3.And(*cs) if len(cs) > 1 else cs[0]

    def _sub(self, sub):
        if isinstance(sub, (int, SInt)) and self.kind != "str":
            return SSeq("bytes", [_int_to_bv(sub, WB)], 1)
        sub = self._need(sub, "substring")
        sub.clen()
        return sub

    def _bounds(self, start, end):
        start = self._cidx(start)
        end = self._cidx(end)
        st = self._norm_index(0 if start is None else start, True)
        en = self._norm_index(self.zn() if end is None else end, True)
        return st, en

    def find(self, sub, start=None, end=None):
        sub = self._sub(sub)
        st, en = self._bounds(start, end)
        if ctx().fork_indices and z3.is_int_value(st) and z3.is_int_value(en) and isinstance(self.n, int):
            a, b = st.as_long(), en.as_long()
            ps = [p for p in range(a, b - sub.n + 1)]
            i = ctx().choose([self._hit(sub, p) for p in ps])
            return -1 if i < 0 else ps[i]
        r = z3.IntVal(-1)
        for p in reversed(range(self.cap + 1)):
            h = self._hit(sub, p)
            if z3.is_false(h):
                continue
            r = z3.If(z3.And(h, p >= st, p + sub.n <= en), p, r)
        r = mk_int(r)
        if isinstance(r, SInt) and ctx().fork_indices:
            return ctx().concretize(r.e)
        return r

    def rfind(self, sub, start=None, end=None):
        sub = self._sub(sub)
        st, en = self._bounds(start, end)
        if ctx().fork_indices and z3.is_int_value(st) and z3.is_int_value(en) and isinstance(self.n, int):
            a, b = st.as_long(), en.as_long()
            ps = [p for p in reversed(range(a, b - sub.n + 1))]
            i = ctx().choose([self._hit(sub, p) for p in ps])
            return -1 if i < 0 else ps[i]
        r = z3.IntVal(-1)
        for p in range(self.cap + 1):
            h = self._hit(sub, p)
            if z3.is_false(h):
                continue
            r = z3.If(z3.And(h, p >= st, p + sub.n <= en), p, r)
        r = mk_int(r)
        if isinstance(r, SInt) and ctx().fork_indices:
            return ctx().concretize(r.e)
        return r

    def index(self, sub, start=None, end=None):
        r = self.find(sub, start, end)
        if r == -1:
            raise ValueError("substring not found" if self.kind == "str" else "subsection not found")
        return r

    def rindex(self, sub, start=None, end=None):
        r = self.rfind(sub, start, end)
        if r == -1:
            raise ValueError("substring not found" if self.kind == "str" else "subsection not found")
        return r

    def contains(self, sub):
        sub = self._sub(sub)
        hs = [self._hit(sub, p) for p in range(self.cap + 1)]
        hs = [h for h in hs if not z3.is_false(h)]
        return mk_bool(z3.Or(*hs)) if hs else False

    def __contains__(self, sub):
        return self.contains(sub)

    def count(self, sub):
        sub = self._sub(sub)
        if sub.n == 0:
            return self.slen() + 1
        self.clen()
        if sub.n == 1:
            t = z3.IntVal(0)
            for e in self.elems:
                t = t + z3.If(e == sub.elems[0], 1, 0)
            r = mk_int(t)
            return r
        # non-overlapping count: sequential scan with forks
        cnt, p = 0, 0
        while p + sub.n <= self.n:
            if ctx().decide(self._hit(sub, p)):
                cnt += 1
                p += sub.n
            else:
                p += 1
        return cnt

    def startswith(self, sub, start=None):
        if isinstance(sub, tuple):
            return sor(*[self.startswith(s, start) for s in sub])
        if start is not None:
            return self[start:].startswith(sub)
        sub = self._need(sub, "prefix")
        if _is_cint(sub.n):
            return mk_bool(self._hit(sub, 0))
        cs = [sub.zn() <= self.zn()]
        for i in range(sub.cap):
            if i < self.cap:
                cs.append(z3.Or(sub.zn() <= i, self.elems[i] == sub.elems[i]))
            else:
                cs.append(sub.zn() <= i)
        return mk_bool(z3.And(*cs))

    def endswith(self, sub, start=None):
        if isinstance(sub, tuple):
            return sor(*[self.endswith(s) for s in sub])
        sub = self._need(sub, "suffix")
        n, m = self.clen(), sub.clen()
        if m > n:
            return False
        return mk_bool(self._hit(sub, n - m))

    # ------------------------------------------------------------ predicates
    def _all_elems(self, pred, empty=False):
        es = self.celems()
        if not es:
            return empty
        return mk_bool(z3.And(*[pred(e) for e in es]))

    def _cls_ranges(self, name):
        """code point ranges (within the element width) satisfying str/bytes predicate"""
        key = (self.kind == "str", name)
        if key not in _cls_cache:
            if self.kind == "str":
                cps = [c for c in range(0x110000) if getattr(chr(c), name)()]
            else:
                cps = [c for c in range(256) if getattr(bytes([c]), name)()]
            _cls_cache[key] = ranges_of(cps)
        return _cls_cache[key]

    def isdigit(self):
        r = self._cls_ranges("isdigit")
        return self._all_elems(lambda e: in_ranges(e, r))

    def isdecimal(self):
        r = self._cls_ranges("isdecimal")
        return self._all_elems(lambda e: in_ranges(e, r))

    def isalnum(self):
        r = self._cls_ranges("isalnum")
        return self._all_elems(lambda e: in_ranges(e, r))

    def isalpha(self):
        r = self._cls_ranges("isalpha")
        return self._all_elems(lambda e: in_ranges(e, r))

    def isspace(self):
        r = self._cls_ranges("isspace")
        return self._all_elems(lambda e: in_ranges(e, r))

    def isascii(self):
        return self._all_elems(lambda e: z3.ULT(e, 128), empty=True)

    # ------------------------------------------------------------ stripping
    def _strip_pred(self, chars):
        if chars is None:
            rs = self._cls_ranges("isspace")
            return lambda e: in_ranges(e, rs)
        chars = self._need(chars, "strip chars")
        cs = list(chars.celems())
        if not cs:
            return lambda e: z3.BoolVal(False)
        return lambda e: z3.Or(*[e == c for c in cs])

    def lstrip(self, chars=None):
        pred = self._strip_pred(chars)
        es = self.celems()
        i = 0
        while i < len(es) and ctx().decide(pred(es[i])):
            i += 1
        return self.same(es[i:], len(es) - i)

    def rstrip(self, chars=None):
        pred = self._strip_pred(chars)
        es = self.celems()
        j = len(es)
        while j > 0 and ctx().decide(pred(es[j - 1])):
            j -= 1
        return self.same(es[:j], j)

    def strip(self, chars=None):
        return self.lstrip(chars).rstrip(chars)

    def removeprefix(self, p):
        p = self._need(p)
        if self.startswith(p):
            return self[p.clen():]
        return self[:]

    def removesuffix(self, p):
        p = self._need(p)
        if p.clen() and self.endswith(p):
            return self[: self.clen() - p.n]
        return self[:]

    # ------------------------------------------------------------ splitting
    def partition(self, sep):
        sep = self._sub(sep)
        i = self.find(sep)
        if not isinstance(i, int):
            i = ctx().concretize(zi(i))
        if i == -1:
            return (self[:], self.same([], 0), self.same([], 0))
        return (self[:i], self.same(sep.elems, sep.n), self[i + sep.n:])

    def rpartition(self, sep):
        sep = self._sub(sep)
        i = self.rfind(sep)
        if not isinstance(i, int):
            i = ctx().concretize(zi(i))
        if i == -1:
            return (self.same([], 0), self.same([], 0), self[:])
        return (self[:i], self.same(sep.elems, sep.n), self[i + sep.n:])

    def split(self, sep=None, maxsplit=-1):
        if not isinstance(maxsplit, int):
            maxsplit = ctx().concretize(zi(maxsplit))
        es = self.celems()
        n = len(es)
        out = []
        if sep is None:
            pred = self._strip_pred(None)
            i = 0
            while True:
                while i < n and ctx().decide(pred(es[i])):
                    i += 1
                if i >= n:
                    break
                if maxsplit >= 0 and len(out) >= maxsplit:
                    rest = self.same(es[i:], n - i)
                    out.append(rest.rstrip() if False else rest)
                    # python: remainder keeps trailing whitespace? No: with sep=None and
                    # maxsplit reached the remainder is taken as is but leading ws stripped
                    break
                j = i
                while j < n and not ctx().decide(pred(es[j])):
                    j += 1
                out.append(self.same(es[i:j], j - i))
                i = j
            return out
        sep = self._sub(sep)
        if sep.n == 0:
            raise ValueError("empty separator")
        i = 0
        cur = 0
        while i + sep.n <= n and (maxsplit < 0 or len(out) < maxsplit):
            if ctx().decide(self._hit(sep, i)):
                out.append(self.same(es[cur:i], i - cur))
                i += sep.n
                cur = i
            else:
                i += 1
        out.append(self.same(es[cur:], n - cur))
        return out

    def rsplit(self, sep=None, maxsplit=-1):
        if sep is None:
            raise Unsupported("rsplit(None)")
        if not isinstance(maxsplit, int):
            maxsplit = ctx().concretize(zi(maxsplit))
        sep = self._sub(sep)
        es = self.celems()
        n = len(es)
        out = []
        j = n
        cur = n
        while j - sep.n >= 0 and (maxsplit < 0 or len(out) < maxsplit):
            if ctx().decide(self._hit(sep, j - sep.n)):
                out.append(self.same(es[j:cur], cur - j))
                j -= sep.n
                cur = j
            else:
                j -= 1
        out.append(self.same(es[:cur], cur))
        out.reverse()
        return out

    def splitlines(self, keepends=False):
        es = self.celems()
        n = len(es)
        if self.kind == "str":
            brk = [0x0A, 0x0B, 0x0C, 0x0D, 0x1C, 0x1D, 0x1E, 0x85, 0x2028, 0x2029]
        else:
            brk = [0x0A, 0x0D]
        out = []
        i = cur = 0
        while i < n:
            e = es[i]
            if ctx().decide(z3.Or(*[e == b for b in brk])):
                end = i + 1
                if ctx().decide(e == 0x0D) and i + 1 < n and ctx().decide(es[i + 1] == 0x0A):
                    end = i + 2
                stop = end if keepends else i
                out.append(self.same(es[cur:stop], stop - cur))
                i = cur = end
            else:
                i += 1
        if cur < n:
            out.append(self.same(es[cur:], n - cur))
        return out

    def join(self, items):
        items = list(items)
        r = self.same([], 0)
        for k, it in enumerate(items):
            it = self._need(it, "join item")
            if k:
                r = sconcat(r, self)
            r = sconcat(r, it)
        return r

    def replace(self, old, new, count=-1):
        old = self._sub(old)
        new = self._need(new)
        if old.n == 0:
            raise Unsupported("replace with empty pattern")
        es = self.celems()
        n = len(es)
        parts = []
        i = cur = 0
        done = 0
        while i + old.n <= n and (count < 0 or done < count):
            if ctx().decide(self._hit(old, i)):
                parts.append(self.same(es[cur:i], i - cur))
                parts.append(new)
                i += old.n
                cur = i
                done += 1
            else:
                i += 1
        parts.append(self.same(es[cur:], n - cur))
        r = self.same([], 0)
        for p in parts:
            r = sconcat(r, p)
        return r

    # ----------------------------------------------------------------- case
    def _casemap(self, which):
        es = self.celems()
        if self.kind != "str":
            lo, hi, d = (65, 90, 32) if which == "lower" else (97, 122, -32)
            return self.same([z3.If(z3.And(z3.UGE(e, lo), z3.ULE(e, hi)), e + d, e) for e in es], len(es))
        maxcp = getattr(ctx(), "max_cp", 0xFF)
        runs, multi = _case_table(which, maxcp)
        out = []
        for e in es:
            if z3.is_bv_value(e):
                m = getattr(chr(e.as_long()), which)()
                if len(m) != 1:
                    raise Unsupported(f"{which}() of multi-char mapping")
                out.append(bvv(ord(m), WS))
                continue
            if ctx().decide(z3.UGT(e, maxcp)):
                raise Unsupported(f"{which}() outside modelled code point range")
            hit = None
            for c in multi:
                # a mapping to several characters (e.g. 'ß'.upper() == 'SS'): fork on the value
                if ctx().decide(e == c):
                    hit = c
                    break
            if hit is not None:
                out.extend(bvv(ord(ch), WS) for ch in getattr(chr(hit), which)())
                continue
            r = e
            for lo, hi, d in runs:
                r = z3.If(z3.And(z3.UGE(e, lo), z3.ULE(e, hi)), e + d, r)
            out.append(r)
        return self.same(out, len(out))

    def lower(self):
        return self._casemap("lower")

    def upper(self):
        return self._casemap("upper")

    def casefold(self):
        return self._casemap("casefold")

    def title(self):
        raise Unsupported("title() on symbolic text")

    # ------------------------------------------------------------- encoding
    def encode(self, encoding="utf-8", errors="strict"):
        if self.kind != "str":
            raise AttributeError("encode")
        from . import codecs_model

        return codecs_model.encode(self, encoding, errors)

    def decode(self, encoding="utf-8", errors="strict"):
        if self.kind == "str":
            raise AttributeError("decode")
        from . import codecs_model

        return codecs_model.decode(self, encoding, errors)

    def hex(self):
        raise Unsupported("hex()")

    def __mod__(self, args):
        from . import fmt

        return fmt.percent_format(self, args)

    def format(self, *a, **kw):
        """concrete template, possibly symbolic arguments: plain '{}', '{0}', '{name}' fields
        (optionally with !s); format specs on symbolic arguments are not modelled"""
        import string

        from . import fmt

        if not self.is_concrete() or self.kind != "str":
            raise Unsupported("str.format on symbolic template")
        out = self.same([], 0)
        auto = 0
        for lit, field, spec, conv in string.Formatter().parse(self.concrete()):
            if lit:
                out = sconcat(out, lift(lit))
            if field is None:
                continue
            if field == "":
                val = a[auto]
                auto += 1
            elif field.isdigit():
                val = a[int(field)]
            elif field.isidentifier():
                val = kw[field]
            else:
                raise Unsupported(f"str.format field {field!r}")
            if isinstance(val, (SSeq, SInt)) or hasattr(val, "e"):
                if spec or conv not in (None, "s"):
                    raise Unsupported("str.format spec on a symbolic argument")
                out = sconcat(out, lift(fmt.to_str(val)))
            else:
                out = sconcat(out, lift(("{" + ("!" + conv if conv else "") + (":" + spec if spec else "") + "}").format(val)))
        return out

    def zfill(self, w):
        if not isinstance(w, int):
            w = ctx().concretize(zi(w))
        es = self.celems()
        pad = w - len(es)
        if pad <= 0:
            return self.same(es, len(es))
        zero = bvv(48, self.w)
        if es and ctx().decide(z3.Or(es[0] == 43, es[0] == 45)):
            return self.same([es[0]] + [zero] * pad + es[1:], w)
        return self.same([zero] * pad + es, w)

    def isidentifier(self):
        raise Unsupported("isidentifier")

    def expandtabs(self, *a):
        raise Unsupported("expandtabs")

    def translate(self, table):
        raise Unsupported("translate")


_cls_cache = {}


def _int_to_bv(x, w):
    if isinstance(x, int):
        if not 0 <= x < (1 << w):
            raise ValueError("byte must be in range(0, 256)")
        return bvv(x, w)
    if isinstance(x, SInt):
        from .core import sand

        if not bool(sand(x >= 0, x < (1 << w))):
            raise ValueError("byte must be in range(0, 256)")
        return x.low_bits(w)
    raise TypeError(x)


def sconcat(a: SSeq, b: SSeq) -> SSeq:
    kind = a.kind if a.kind != "bytearray" else "bytes"
    if _is_cint(a.n):
        elems = a.elems[: a.n] + b.elems
        if _is_cint(b.n):
            return SSeq(kind, elems, a.n + b.n)
        return SSeq(kind, elems, z3.simplify(a.n + b.n))
    if ctx().fork_indices:
        a.clen()
        return sconcat(a, b)
    an, bn = a.zn(), b.zn()
    w = a.w
    elems = []
    for j in range(a.cap + b.cap):
        bsel = _ite_select(b.elems, j - an, w)
        if j < a.cap:
            elems.append(z3.If(j < an, a.elems[j], bsel))
        else:
            elems.append(bsel)
    return SSeq(kind, elems, z3.simplify(an + bn))


def lift(v):
    """native str/bytes -> SSeq (SSeq passes through)"""
    if isinstance(v, SSeq):
        return v
    return SSeq.const(v)


def is_symseq(v):
    return isinstance(v, SSeq)


def sym_bytes(name, cap, minlen=0, **kw):
    return SSeq.fresh(name, cap, "bytes", minlen, **kw)


def sym_str(name, cap, minlen=0, maxcp=None, **kw):
    return SSeq.fresh(name, cap, "str", minlen, maxcp, **kw)


def chars_in(s: SSeq, allowed):
    """SBool: every element of s is one of `allowed` (iterable of ints or (lo,hi))"""
    rs = []
    for a in allowed:
        rs.append((a, a) if isinstance(a, int) else tuple(a))
    n = s.zn()
    cs = []
    for i, e in enumerate(s.elems):
        cs.append(z3.Or(n <= i, in_ranges(e, rs)))
    return mk_bool(z3.And(*cs)) if cs else True


def chars_not_in(s: SSeq, banned):
    rs = []
    for a in banned:
        rs.append((a, a) if isinstance(a, int) else tuple(a))
    n = s.zn()
    cs = []
    for i, e in enumerate(s.elems):
        cs.append(z3.Or(n <= i, z3.Not(in_ranges(e, rs))))
    return mk_bool(z3.And(*cs)) if cs else True
