"""A dict that tolerates symbolic keys.

Keys are kept pairwise distinct *under the current path condition*: inserting or
looking up a symbolic key forks on equality with each stored key that could be equal.
Insertion order is preserved.  The base dict storage mirrors the concrete-key entries
so that C-level consumers see them when no symbolic key is present.
"""
from __future__ import annotations

from .core import SBool, SInt, Unsupported, sand, sor, snot
from .seq import SSeq


def sym_key(k):
    if isinstance(k, (SInt, SBool)):
        return True
    if isinstance(k, SSeq):
        return True
    if isinstance(k, tuple):
        return any(sym_key(x) for x in k)
    return False


def _norm(k):
    """fully concrete SSeq keys become native values"""
    if isinstance(k, SSeq) and k.is_concrete():
        v = k.concrete()
        return bytes(v) if isinstance(v, bytearray) else v
    if isinstance(k, tuple):
        return tuple(_norm(x) for x in k)
    return k


def _keq(a, b):
    """a == b as bool/SBool without hashing"""
    if isinstance(a, tuple) and isinstance(b, tuple):
        if len(a) != len(b):
            return False
        return sand(*[_keq(x, y) for x, y in zip(a, b)])
    if isinstance(a, (SSeq, SInt, SBool)):
        r = a.__eq__(b)
        return False if r is NotImplemented else r
    if isinstance(b, (SSeq, SInt, SBool)):
        r = b.__eq__(a)
        return False if r is NotImplemented else r
    return a == b


_MISSING = object()


class SymDict(dict):
    def __init__(self, *a, **kw):
        super().__init__()
        self._items = []  # [key, value] in insertion order
        if a or kw:
            for k, v in dict(*a, **kw).items():
                self.s_set(k, v)

    # ---------------------------------------------------------- core
    def _find(self, key):
        key = _norm(key)
        if not sym_key(key):
            # concrete key: exact hit first, then symbolic stored keys that may equal it
            for i, (k, _) in enumerate(self._items):
                if not sym_key(k) and k == key:
                    return i
            for i, (k, _) in enumerate(self._items):
                if sym_key(k) and bool(_keq(k, key)):
                    return i
            return -1
        for i, (k, _) in enumerate(self._items):
            if bool(_keq(k, key)):
                return i
        return -1

    def s_get(self, key):
        i = self._find(key)
        if i < 0:
            raise KeyError(key)
        return self._items[i][1]

    def s_set(self, key, value):
        key = _norm(key)
        i = self._find(key)
        if i >= 0:
            self._items[i][1] = value
            k = self._items[i][0]
        else:
            self._items.append([key, value])
            k = key
        if not sym_key(k):
            dict.__setitem__(self, k, value)

    def s_del(self, key):
        i = self._find(key)
        if i < 0:
            raise KeyError(key)
        k, v = self._items.pop(i)
        if not sym_key(k):
            dict.__delitem__(self, k)
        return v

    def s_contains(self, key):
        return self._find(key) >= 0

    def s_keys(self):
        return [k for k, _ in self._items]

    def s_items(self):
        return [(k, v) for k, v in self._items]

    def has_sym_keys(self):
        return any(sym_key(k) for k, _ in self._items)

    def as_native(self):
        if self.has_sym_keys():
            raise Unsupported("dict with symbolic keys passed to native code")
        return {k: v for k, v in self._items}

    def s_equals(self, other):
        """equality with another mapping (order-insensitive), SBool/bool"""
        if isinstance(other, SymDict):
            oitems = other.s_items()
        elif isinstance(other, dict):
            oitems = list(other.items())
        else:
            return False
        if len(oitems) != len(self._items):
            return False
        from .interp import s_eq

        for k, v in oitems:
            i = self._find(k)
            if i < 0:
                return False
            if not bool(s_eq(self._items[i][1], v)):
                return False
        return True

    # ------------------------------------------------- dict protocol
    def __getitem__(self, key):
        return self.s_get(key)

    def __setitem__(self, key, value):
        self.s_set(key, value)

    def __delitem__(self, key):
        self.s_del(key)

    def __contains__(self, key):
        return self.s_contains(key)

    def __len__(self):
        return len(self._items)

    def __iter__(self):
        return iter(self.s_keys())

    def __bool__(self):
        return bool(self._items)

    def keys(self):
        return self.s_keys()

    def values(self):
        return [v for _, v in self._items]

    def items(self):
        return self.s_items()

    def get(self, key, default=None):
        i = self._find(key)
        return default if i < 0 else self._items[i][1]

    def pop(self, key, default=_MISSING):
        i = self._find(key)
        if i < 0:
            if default is _MISSING:
                raise KeyError(key)
            return default
        return self.s_del(self._items[i][0])

    def popitem(self):
        if not self._items:
            raise KeyError("popitem(): dictionary is empty")
        k, v = self._items[-1]
        self.s_del(k)
        return k, v

    def setdefault(self, key, default=None):
        i = self._find(key)
        if i >= 0:
            return self._items[i][1]
        self.s_set(key, default)
        return default

    def update(self, *a, **kw):
        if a:
            src = a[0]
            if isinstance(src, SymDict):
                for k, v in src.s_items():
                    self.s_set(k, v)
            elif hasattr(src, "keys"):
                for k in src.keys():
                    self.s_set(k, src[k])
            else:
                for k, v in src:
                    self.s_set(k, v)
        for k, v in kw.items():
            self.s_set(k, v)

    def clear(self):
        self._items.clear()
        dict.clear(self)

    def copy(self):
        d = SymDict()
        for k, v in self._items:
            d.s_set(k, v)
        return d

    def __eq__(self, other):
        return self.s_equals(other)

    def __ne__(self, other):
        return not self.s_equals(other)

    __hash__ = None

    def __repr__(self):
        return "SymDict(" + ", ".join(f"{k!r}: {v!r}" for k, v in self._items) + ")"

    def __or__(self, other):
        d = self.copy()
        d.update(other)
        return d

    def __ior__(self, other):
        self.update(other)
        return self

    def __reversed__(self):
        return reversed(self.s_keys())


class SymSet(set):
    """set/frozenset that tolerates symbolic members (kept pairwise distinct under the
    path condition; membership forks on equality).  Iteration order = insertion order."""

    def __init__(self, items=(), frozen=False):
        super().__init__()
        self._items = []
        self._frozen = frozen
        for x in items:
            self.s_add(x)

    def _find(self, x):
        x = _norm(x)
        if not sym_key(x):
            for i, k in enumerate(self._items):
                if not sym_key(k) and k == x:
                    return i
            for i, k in enumerate(self._items):
                if sym_key(k) and bool(_keq(k, x)):
                    return i
            return -1
        for i, k in enumerate(self._items):
            if bool(_keq(k, x)):
                return i
        return -1

    def s_add(self, x):
        x = _norm(x)
        if self._find(x) < 0:
            self._items.append(x)
            if not sym_key(x):
                set.add(self, x)

    def s_contains(self, x):
        return self._find(x) >= 0

    def add(self, x):
        if self._frozen:
            raise AttributeError("'frozenset' object has no attribute 'add'")
        self.s_add(x)

    def discard(self, x):
        i = self._find(x)
        if i >= 0:
            k = self._items.pop(i)
            if not sym_key(k):
                set.discard(self, k)

    def remove(self, x):
        i = self._find(x)
        if i < 0:
            raise KeyError(x)
        k = self._items.pop(i)
        if not sym_key(k):
            set.discard(self, k)

    def clear(self):
        self._items.clear()
        set.clear(self)

    def update(self, *others):
        for o in others:
            for x in o:
                self.s_add(x)

    def __contains__(self, x):
        return self.s_contains(x)

    def __iter__(self):
        return iter(list(self._items))

    def __len__(self):
        return len(self._items)

    def __bool__(self):
        return bool(self._items)

    def copy(self):
        return SymSet(self._items, self._frozen)

    def issuperset(self, other):
        return all(self.s_contains(x) for x in other)

    def issubset(self, other):
        o = other if isinstance(other, SymSet) else SymSet(other)
        return all(o.s_contains(x) for x in self._items)

    def isdisjoint(self, other):
        return not any(self.s_contains(x) for x in other)

    def __eq__(self, other):
        if not isinstance(other, (set, frozenset)):
            return False
        o = other if isinstance(other, SymSet) else SymSet(other)
        return len(o) == len(self) and self.issuperset(o)

    def __ne__(self, other):
        return not self.__eq__(other)

    __hash__ = None

    def __or__(self, other):
        r = self.copy()
        r.update(other)
        return r

    __ror__ = __or__
    union = __or__

    def __sub__(self, other):
        o = other if isinstance(other, SymSet) else SymSet(other)
        return SymSet([x for x in self._items if not o.s_contains(x)], self._frozen)

    def __rsub__(self, other):
        return SymSet([x for x in other if not self.s_contains(x)], self._frozen)

    difference = __sub__

    def __and__(self, other):
        o = other if isinstance(other, SymSet) else SymSet(other)
        return SymSet([x for x in self._items if o.s_contains(x)], self._frozen)

    __rand__ = __and__
    intersection = __and__

    def __repr__(self):
        return "SymSet(" + ", ".join(map(repr, self._items)) + ")"
