"""symex.core -- path context, solver plumbing, symbolic scalars.

A *path* is one execution of a harness.  Every Python-level branch on a symbolic
value goes through Ctx.decide(), which asks z3 which sides are feasible, takes one
and records the other as pending work for the explorer (depth-first by re-execution
with a recorded decision prefix).
"""
from __future__ import annotations

import itertools
import time

import z3


class PathAbort(BaseException):
    """The current path is infeasible (assumption failed)."""


class BoundExceeded(BaseException):
    """An unwinding / size bound was hit: result is inconclusive, never success."""


class Inconclusive(BaseException):
    """Solver said unknown."""


class Unsupported(BaseException):
    """A construct the engine has no model for: inconclusive, never success.

    Derives from BaseException so that `except Exception` in interpreted code
    cannot swallow it.
    """


_ctx = None
import os as _os
_DUMP = _os.environ.get("SYMEX_DUMP")


def ctx() -> "Ctx":
    if _ctx is None:
        raise RuntimeError("no symbolic context active")
    return _ctx


def set_ctx(c):
    global _ctx
    _ctx = c


def active() -> bool:
    return _ctx is not None


class Ctx:
    def __init__(self, prefix=(), timeout_ms=120000, fork_indices=True, loop_bound=64, max_cp=0xFF,
                 max_digits=6, buf_cap=8, bv_ints=False):
        self.solver = z3.Solver()
        self.solver.set("timeout", timeout_ms)
        self.prefix = list(prefix)
        self.trace = []
        self.pending = []
        self.nqueries = 0
        self.solver_time = 0.0
        self.fresh = itertools.count()
        self.model = None  # a model of everything asserted so far, or None
        self.fork_indices = fork_indices
        self.loop_bound = loop_bound
        self.max_cp = max_cp
        self.max_digits = max_digits
        self.buf_cap = buf_cap
        self.bv_ints = bv_ints
        self.ndecisions = 0
        self.notes = []
        self.inputs = {}  # name -> symbolic input object, for model extraction

    # ---------------------------------------------------------------- solver
    def _check(self, *extra):
        t0 = time.time()
        self.nqueries += 1
        r = self.solver.check(*extra)
        dt = time.time() - t0
        self.solver_time += dt
        if _DUMP and dt > float(_DUMP):
            import os
            with open(f"/tmp/slowq_{os.getpid()}_{self.nqueries}.smt2", "w") as f:
                s2 = z3.Solver()
                s2.add(self.solver.assertions())
                s2.add(*extra)
                f.write(s2.to_smt2())
        if r == z3.unknown:
            raise Inconclusive(self.solver.reason_unknown())
        if r == z3.sat:
            return self.solver.model()
        return None

    def _holds_in_model(self, c) -> bool:
        if self.model is None:
            return False
        try:
            return z3.is_true(self.model.eval(c, model_completion=True))
        except z3.Z3Exception:
            return False

    def add(self, c):
        """assert c without feasibility check (caller knows it is feasible)"""
        self.solver.add(c)
        if self.model is not None and not self._holds_in_model(c):
            self.model = None

    def feasible(self, c=None):
        """is (path ∧ c) satisfiable?  returns a model or None; does not assert."""
        if c is None:
            if self.model is not None:
                return self.model
            m = self._check()
            self.model = m
            return m
        if self._holds_in_model(c):
            return self.model
        return self._check(c)

    def assume(self, c):
        c = zb(c)
        c = z3.simplify(c)
        if z3.is_true(c):
            return
        if z3.is_false(c):
            raise PathAbort()
        if len(self.trace) < len(self.prefix):
            # replaying a recorded prefix: the path was feasible when recorded
            self.solver.add(c)
            self.model = None
            return
        if self._holds_in_model(c):
            self.solver.add(c)
            return
        self.solver.add(c)
        m = self._check()
        if m is None:
            raise PathAbort()
        self.model = m

    def decide(self, cond, tag=None) -> bool:
        """fork on a z3 Bool.  Trace entries are bools, or (tag, bool) pairs for
        decisions whose condition depends on a model-derived candidate (tag)."""
        cond = z3.simplify(zb(cond))
        if z3.is_true(cond):
            return True
        if z3.is_false(cond):
            return False
        self.ndecisions += 1
        k = len(self.trace)
        wrap = (lambda b: b) if tag is None else (lambda b: (tag, b))
        if k < len(self.prefix):
            ent = self.prefix[k]
            v = ent if tag is None else ent[1]
            self.trace.append(ent)
            self.solver.add(cond if v else z3.Not(cond))
            self.model = None
            return v
        ncond = z3.Not(cond)
        if self.model is None:
            m = self._check()
            if m is None:
                raise PathAbort()
            self.model = m
        if self._holds_in_model(cond):
            m_t = self.model
            m_f = self._check(ncond)
        else:
            m_f = self.model
            m_t = self._check(cond)
        if m_t is not None and m_f is not None:
            v = True
            self.pending.append(self.trace + [wrap(False)])
            self.model = m_t
        elif m_t is not None:
            v = True
            self.model = m_t
        elif m_f is not None:
            v = False
            self.model = m_f
        else:
            raise PathAbort()
        self.trace.append(wrap(v))
        self.solver.add(cond if v else ncond)
        return v

    def concretize(self, e):
        """fork a symbolic int (z3 Int expr) into its feasible concrete values"""
        e = z3.simplify(e)
        if z3.is_int_value(e):
            return e.as_long()
        n = 0
        while True:
            n += 1
            if n > 4096:
                raise BoundExceeded("concretize: too many values")
            k = len(self.trace)
            if k < len(self.prefix):
                v = self.prefix[k][0]  # candidate recorded when the path was first run
            else:
                m = self.feasible()
                if m is None:
                    raise PathAbort()
                v = m.eval(e, model_completion=True).as_long()
            if self.decide(e == v, tag=v):
                return v

    def choose(self, conds):
        """index of the first condition (z3 Bools, priority order) that holds, or -1;
        forks over the feasible outcomes.  Stays within the Boolean/bit-vector theory
        (no integer if-then-else chains)."""
        conds = [z3.simplify(c) for c in conds]
        for i, c in enumerate(conds):
            if z3.is_true(c):
                conds = conds[: i + 1]
                break
        live = [(i, c) for i, c in enumerate(conds) if not z3.is_false(c)]
        if not live:
            return -1
        if len(live) == 1 and z3.is_true(live[0][1]):
            return live[0][0]
        excluded = set()
        n = 0
        while True:
            n += 1
            if n > len(live) + 2:
                raise BoundExceeded("choose: no progress")
            k = len(self.trace)
            if k < len(self.prefix):
                cand = self.prefix[k][0]
            else:
                m = self.feasible()
                if m is None:
                    raise PathAbort()
                cand = -1
                for i, c in live:
                    if z3.is_true(m.eval(c, model_completion=True)):
                        cand = i
                        break
            if cand == -1:
                cnd = z3.Not(z3.Or(*[c for _, c in live])) if len(live) > 1 else z3.Not(live[0][1])
            else:
                before = [c for i, c in live if i < cand]
                me = [c for i, c in live if i == cand][0]
                cnd = z3.And(me, z3.Not(z3.Or(*before))) if len(before) > 1 else (z3.And(me, z3.Not(before[0])) if before else me)
            if self.decide(cnd, tag=cand):
                return cand
            if cand in excluded:
                raise BoundExceeded("choose: repeated candidate")
            excluded.add(cand)

    def note(self, s):
        self.notes.append(s)


# -------------------------------------------------------------------- coercions


def zb(x):
    if isinstance(x, SBool):
        return x.e
    if isinstance(x, bool):
        return z3.BoolVal(x)
    if isinstance(x, z3.BoolRef):
        return x
    raise TypeError(f"not a bool: {x!r}")


def zi(x):
    if isinstance(x, SInt):
        return x.e
    if isinstance(x, SBool):
        return z3.If(x.e, 1, 0)
    if isinstance(x, bool):
        return z3.IntVal(int(x))
    if isinstance(x, int):
        return z3.IntVal(x)
    if isinstance(x, z3.ArithRef):
        return x
    raise TypeError(f"not an int: {x!r}")


def mk_int(e):
    e = z3.simplify(e)
    if z3.is_int_value(e):
        return e.as_long()
    return SInt(e)


def mk_bool(e):
    e = z3.simplify(e)
    if z3.is_true(e):
        return True
    if z3.is_false(e):
        return False
    return SBool(e)


def truth(v) -> bool:
    """Python truthiness, forking for symbolic values."""
    return bool(v)


class SBool:
    __slots__ = ("e",)

    def __init__(self, e):
        self.e = e

    def __bool__(self):
        return ctx().decide(self.e)

    def __invert__(self):
        return mk_bool(z3.Not(self.e))

    def __and__(self, o):
        if isinstance(o, (bool, SBool)):
            return mk_bool(z3.And(self.e, zb(o)))
        return NotImplemented

    __rand__ = __and__

    def __or__(self, o):
        if isinstance(o, (bool, SBool)):
            return mk_bool(z3.Or(self.e, zb(o)))
        return NotImplemented

    __ror__ = __or__

    def __xor__(self, o):
        if isinstance(o, (bool, SBool)):
            return mk_bool(z3.Xor(self.e, zb(o)))
        return NotImplemented

    __rxor__ = __xor__

    def __eq__(self, o):
        if isinstance(o, (bool, SBool)):
            return mk_bool(self.e == zb(o))
        if isinstance(o, (int, SInt)):
            return mk_bool(zi(self) == zi(o))
        return False

    def __ne__(self, o):
        return snot(self.__eq__(o))

    __hash__ = None

    def __lt__(self, o):
        if isinstance(o, (bool, int, SBool, SInt)):
            return mk_bool(zi(self) < zi(o))
        return NotImplemented

    def __le__(self, o):
        if isinstance(o, (bool, int, SBool, SInt)):
            return mk_bool(zi(self) <= zi(o))
        return NotImplemented

    def __gt__(self, o):
        if isinstance(o, (bool, int, SBool, SInt)):
            return mk_bool(zi(self) > zi(o))
        return NotImplemented

    def __ge__(self, o):
        if isinstance(o, (bool, int, SBool, SInt)):
            return mk_bool(zi(self) >= zi(o))
        return NotImplemented

    def __index__(self):
        return 1 if bool(self) else 0

    def __int__(self):
        return 1 if bool(self) else 0

    def __add__(self, o):
        return SInt(zi(self)) + o

    __radd__ = __add__

    def __sub__(self, o):
        return SInt(zi(self)) - o

    def __rsub__(self, o):
        return o - SInt(zi(self))

    def __mul__(self, o):
        return SInt(zi(self)) * o

    __rmul__ = __mul__

    def __repr__(self):
        return f"SBool({self.e})"


def snot(x):
    if isinstance(x, SBool):
        return ~x
    return not x


def sand(*xs):
    r = True
    for x in xs:
        if x is False:
            return False
        if x is True:
            continue
        r = x if r is True else (r & x)
    return r


def sor(*xs):
    r = False
    for x in xs:
        if x is True:
            return True
        if x is False:
            continue
        r = x if r is False else (r | x)
    return r


def implies(a, b):
    return sor(snot(a), b)


def ite(c, a, b):
    """value-level if-then-else for ints/bools (no fork)"""
    if isinstance(c, bool):
        return a if c else b
    c = zb(c)
    if isinstance(a, (bool, SBool)) and isinstance(b, (bool, SBool)):
        return mk_bool(z3.If(c, zb(a), zb(b)))
    return mk_int(z3.If(c, zi(a), zi(b)))


MAX_BV_WIDTH = 72


def _sx(bv, w):
    return bv if bv.size() == w else z3.SignExt(w - bv.size(), bv)


def _bv_of(o):
    """signed bit-vector view of an int-like operand, or None"""
    if isinstance(o, bool):
        o = int(o)
    if isinstance(o, int):
        w = o.bit_length() + 1
        return z3.BitVecVal(o, w) if w <= MAX_BV_WIDTH else None
    if isinstance(o, SInt):
        return o.bv
    return None


def _mk_sint_bv(bv, nonneg=False):
    bv = z3.simplify(bv)
    if z3.is_bv_value(bv):
        return bv.as_signed_long()
    if bv.size() > MAX_BV_WIDTH:
        return mk_int(z3.BV2Int(bv, is_signed=True))
    return SInt(z3.BV2Int(bv, is_signed=True), bv, nonneg)


class SInt:
    """symbolic Python int (z3 Int).  `bv`, when set, is a *signed* bit-vector term with
    exactly the same value (widths grow with every operation, so nothing ever wraps):
    arithmetic and comparisons then stay in the bit-vector theory -- mixing Int and
    BV through bv2int/int2bv is what makes queries slow."""

    __slots__ = ("e", "bv", "nonneg")

    def __init__(self, e, bv=None, nonneg=False):
        self.e = e
        self.bv = bv
        self.nonneg = nonneg

    def __repr__(self):
        return f"SInt({self.e})"

    def __bool__(self):
        if self.bv is not None:
            return ctx().decide(self.bv != 0)
        return ctx().decide(self.e != 0)

    def __index__(self):
        return ctx().concretize(self.e)

    def __int__(self):
        return ctx().concretize(self.e)

    __hash__ = None

    def _bin(self, o, f, bvop=None):
        if bvop is not None and self.bv is not None:
            ob = _bv_of(o)
            if ob is not None:
                w = max(self.bv.size(), ob.size()) + 1
                if w <= MAX_BV_WIDTH:
                    nn = self.nonneg and (o >= 0 if isinstance(o, int) else getattr(o, "nonneg", False)) and bvop == "add"
                    a, b = _sx(self.bv, w), _sx(ob, w)
                    return _mk_sint_bv({"add": a + b, "sub": a - b, "rsub": b - a}[bvop], nn)
        if isinstance(o, (int, SInt, SBool)):
            return mk_int(f(self.e, zi(o)))
        return NotImplemented

    def __add__(self, o):
        return self._bin(o, lambda a, b: a + b, "add")

    __radd__ = __add__

    def __sub__(self, o):
        return self._bin(o, lambda a, b: a - b, "sub")

    def __rsub__(self, o):
        return self._bin(o, lambda a, b: b - a, "rsub")

    def __mul__(self, o):
        if self.bv is not None:
            ob = _bv_of(o)
            if ob is not None:
                w = self.bv.size() + ob.size()
                if w <= MAX_BV_WIDTH:
                    nn = self.nonneg and (o >= 0 if isinstance(o, int) else getattr(o, "nonneg", False))
                    return _mk_sint_bv(_sx(self.bv, w) * _sx(ob, w), nn)
        if isinstance(o, (int, SInt, SBool)):
            return mk_int(self.e * zi(o))
        return NotImplemented

    __rmul__ = __mul__

    def __neg__(self):
        if self.bv is not None and self.bv.size() + 1 <= MAX_BV_WIDTH:
            return _mk_sint_bv(-_sx(self.bv, self.bv.size() + 1))
        return mk_int(-self.e)

    def __pos__(self):
        return self

    def __abs__(self):
        if self.nonneg:
            return self
        return mk_int(z3.If(self.e < 0, -self.e, self.e))

    def __floordiv__(self, o):
        # python floor division; z3 Int div is euclidean: equal for positive divisor
        if isinstance(o, int) and o > 0:
            if self.bv is not None and self.nonneg:
                w = max(self.bv.size(), o.bit_length() + 1)
                return _mk_sint_bv(z3.UDiv(_sx(self.bv, w), z3.BitVecVal(o, w)), True)
            return mk_int(self.e / o)
        if isinstance(o, (int, SInt)):
            oe = zi(o)
            if not ctx().decide(oe != 0):
                raise ZeroDivisionError("integer division or modulo by zero")
            if ctx().decide(oe > 0):
                return mk_int(self.e / oe)
            return mk_int((-self.e) / (-oe))
        return NotImplemented

    def __rfloordiv__(self, o):
        return SInt(zi(o)).__floordiv__(self)

    def __mod__(self, o):
        if isinstance(o, int) and o > 0:
            if self.bv is not None and self.nonneg:
                w = max(self.bv.size(), o.bit_length() + 1)
                return _mk_sint_bv(z3.URem(_sx(self.bv, w), z3.BitVecVal(o, w)), True)
            return mk_int(self.e % o)
        if isinstance(o, (int, SInt)):
            oe = zi(o)
            if not ctx().decide(oe != 0):
                raise ZeroDivisionError("integer division or modulo by zero")
            if ctx().decide(oe > 0):
                return mk_int(self.e % oe)
            return mk_int(-((-self.e) % (-oe)))
        return NotImplemented

    def __rmod__(self, o):
        if isinstance(o, int):
            return SInt(zi(o)).__mod__(self)
        return NotImplemented

    def __truediv__(self, o):
        raise Unsupported("true division on symbolic int (float)")

    def to_bytes(self, length=1, byteorder="big", *, signed=False):
        from .seq import SSeq

        if length != 1 or signed:
            raise Unsupported("int.to_bytes beyond one unsigned byte")
        if not bool(sand(self >= 0, self < 256)):
            raise OverflowError("int too big to convert")
        return SSeq("bytes", [self.low_bits(8)], 1)

    def low_bits(self, w):
        """the low w bits as an unsigned bit-vector (caller has checked the range)"""
        if self.bv is not None:
            bw = self.bv.size()
            return z3.simplify(z3.Extract(w - 1, 0, self.bv) if bw >= w else z3.SignExt(w - bw, self.bv))
        return z3.Int2BV(self.e, w)

    def bit_length(self):
        raise Unsupported("bit_length")

    def _cmp(self, o, f, name=None):
        if self.bv is not None and name is not None:
            r = _bv_cmp(self.bv, o, name)
            if r is not None:
                return r
        if isinstance(o, (int, SInt, SBool)):
            return mk_bool(f(self.e, zi(o)))
        return NotImplemented

    def __lt__(self, o):
        return self._cmp(o, lambda a, b: a < b, "lt")

    def __le__(self, o):
        return self._cmp(o, lambda a, b: a <= b, "le")

    def __gt__(self, o):
        return self._cmp(o, lambda a, b: a > b, "gt")

    def __ge__(self, o):
        return self._cmp(o, lambda a, b: a >= b, "ge")

    def __eq__(self, o):
        if self.bv is not None:
            r = _bv_cmp(self.bv, o, "eq")
            if r is not None:
                return r
        if isinstance(o, (int, SInt, SBool)):
            return mk_bool(self.e == zi(o))
        return False

    def __ne__(self, o):
        if self.bv is not None:
            r = _bv_cmp(self.bv, o, "eq")
            if r is not None:
                return snot(r)
        if isinstance(o, (int, SInt, SBool)):
            return mk_bool(self.e != zi(o))
        return True


def _bv_cmp(bv, o, name):
    """compare a signed-bit-vector valued int with a constant / another such int"""
    ob = _bv_of(o)
    if ob is None:
        return None
    w = max(bv.size(), ob.size())
    a, b = _sx(bv, w), _sx(ob, w)
    e = {"lt": lambda x, y: x < y, "le": lambda x, y: x <= y, "gt": lambda x, y: x > y, "ge": lambda x, y: x >= y,
         "eq": lambda x, y: x == y}[name](a, b)
    return mk_bool(e)


def mk_int_bv(bv):
    """Python-int view of an *unsigned* bit-vector term (a byte, a code point)"""
    bv = z3.simplify(bv)
    if z3.is_bv_value(bv):
        return bv.as_long()
    return _mk_sint_bv(z3.ZeroExt(1, bv), True)


def sym_int_bv(name, lo, hi):
    """a fresh int in lo..hi backed by a bit-vector variable"""
    w = max(abs(lo), abs(hi)).bit_length() + 1
    v = z3.BitVec(name, w)
    c = ctx()
    c.add(z3.And(v >= lo, v <= hi))
    return SInt(z3.BV2Int(v, is_signed=True), v, lo >= 0)


class SReal:
    """symbolic float, modelled as an exact rational (z3 Real).  Faithful for the short
    decimal literals and the comparisons / sorting the checked code performs; arithmetic
    rounding is not modelled (stated in the evidence of the checks that use it)."""

    __slots__ = ("e",)

    def __init__(self, e):
        self.e = e

    def __repr__(self):
        return f"SReal({self.e})"

    __hash__ = None

    @staticmethod
    def lift(o):
        if isinstance(o, SReal):
            return o.e
        if isinstance(o, bool):
            return z3.RealVal(int(o))
        if isinstance(o, int):
            return z3.RealVal(o)
        if isinstance(o, float):
            from fractions import Fraction

            if o != o or o in (float("inf"), float("-inf")):
                return None
            f = Fraction(repr(o)) if "e" not in repr(o) and "E" not in repr(o) else Fraction(o)
            return z3.RealVal(str(f))
        if isinstance(o, SInt):
            return z3.ToReal(o.e)
        if isinstance(o, SBool):
            return z3.ToReal(zi(o))
        return None

    def _cmp(self, o, f):
        oe = SReal.lift(o)
        if oe is None:
            return NotImplemented
        return mk_bool(f(self.e, oe))

    def __lt__(self, o):
        return self._cmp(o, lambda a, b: a < b)

    def __le__(self, o):
        return self._cmp(o, lambda a, b: a <= b)

    def __gt__(self, o):
        return self._cmp(o, lambda a, b: a > b)

    def __ge__(self, o):
        return self._cmp(o, lambda a, b: a >= b)

    def __eq__(self, o):
        oe = SReal.lift(o)
        if oe is None:
            return False
        return mk_bool(self.e == oe)

    def __ne__(self, o):
        return snot(self.__eq__(o))

    def __bool__(self):
        return ctx().decide(self.e != 0)

    def _arith(self, o, f):
        oe = SReal.lift(o)
        if oe is None:
            return NotImplemented
        r = z3.simplify(f(self.e, oe))
        return SReal(r)

    def __add__(self, o):
        return self._arith(o, lambda a, b: a + b)

    __radd__ = __add__

    def __sub__(self, o):
        return self._arith(o, lambda a, b: a - b)

    def __rsub__(self, o):
        return self._arith(o, lambda a, b: b - a)

    def __mul__(self, o):
        return self._arith(o, lambda a, b: a * b)

    __rmul__ = __mul__

    def __neg__(self):
        return SReal(-self.e)

    def __float__(self):
        raise Unsupported("float() of a symbolic real handed to native code")


def sym_real(name, lo=None, hi=None):
    c = ctx()
    v = z3.Real(name)
    if lo is not None:
        c.add(v >= lo)
    if hi is not None:
        c.add(v <= hi)
    return SReal(v)


def smin(*a, **kw):
    if len(a) == 1:
        a = tuple(a[0])
    r = a[0]
    for x in a[1:]:
        if isinstance(r, (SInt, SBool)) or isinstance(x, (SInt, SBool)):
            r = mk_int(z3.If(zi(x) < zi(r), zi(x), zi(r)))
        else:
            r = min(r, x)
    return r


def smax(*a, **kw):
    if len(a) == 1:
        a = tuple(a[0])
    r = a[0]
    for x in a[1:]:
        if isinstance(r, (SInt, SBool)) or isinstance(x, (SInt, SBool)):
            r = mk_int(z3.If(zi(x) > zi(r), zi(x), zi(r)))
        else:
            r = max(r, x)
    return r


def sym_int(name, lo=None, hi=None):
    c = ctx()
    v = z3.Int(name)
    if lo is not None:
        c.solver.add(v >= lo)
    if hi is not None:
        c.solver.add(v <= hi)
    c.model = None
    s = SInt(v)
    c.inputs[name] = s
    return s


def sym_bool(name):
    s = SBool(z3.Bool(name))
    ctx().inputs[name] = s
    return s
