#!/usr/bin/env python3
"""Regenerate MANIFEST.json from tools/claims.py (single source of truth)."""
import json, os, sys
HERE = os.path.dirname(os.path.dirname(os.path.abspath(__file__)))
sys.path.insert(0, os.path.join(HERE, "tools"))
import claims

props = [json.loads(l)["id"] for l in open(os.path.join(HERE, "properties.jsonl"))]
checks = []
for pid in props:
    c = claims.CLAIMS.get(pid)
    if not c:
        continue
    checks.append({
        "property_id": pid,
        "quick_cmd": f"./check {pid} --tier quick",
        "thorough_cmd": f"./check {pid} --tier thorough",
        "evidence_file": f"/verif/evidence/{pid}.json",
        "replay_cmd_template": f"./check {pid} --replay {{path}}",
        "engine": c.get("engine", "symex"),
        "level_claimed": {"category": "model_checking", "text": c["text"], "design_ref": c.get("design_ref", f"DESIGN.md section 4, {pid}")},
        "level_note": c["note"],
        "technique": c.get("technique", "bounded symbolic execution of the real source (own AST interpreter) + z3; native replay of every model"),
    })
na = [{"property_id": pid, "reason": claims.NOT_APPLICABLE[pid]} for pid in props if pid not in claims.CLAIMS]
m = {
    "version": 1,
    "setup_cmd": "./setup.sh",
    "hooks": {
        "guard": "WERKZEUG_VERIF",
        "enable": "no source hooks are needed: the symbolic interpreter reads /repo/src unmodified; the checks export WERKZEUG_VERIF=1 for uniformity only",
        "baseline_off_cmd": "cd /repo && /venv/bin/python -m pytest -ra -q -p no:cacheprovider --timeout=900 --continue-on-collection-errors",
        "source_commits": [],
        "add_only": True,
    },
    "engines": claims.ENGINES,
    "checks": checks,
    "not_applicable": na,
    "notes": claims.NOTES,
}
json.dump(m, open(os.path.join(HERE, "MANIFEST.json"), "w"), indent=1)
print("checks:", [c["property_id"] for c in checks], "n/a:", [x["property_id"] for x in na])
