#!/usr/bin/env python3
"""Confirm a seeded mutation and run the checks against it.

usage: seedtest.py <PROP> <LABEL> [--tier quick|thorough] [--skip-confirm] [--only substr] [--round 2]
Reads /tmp/wt/out_<PROP>/<LABEL>.diff and <LABEL>_demo.py (sub-agent deliverables),
confirms them in the scratch worktree /tmp/wt/<PROP>, then applies the diff to /repo,
runs ./check <PROP>, and reverts /repo.  Results go to /verif/seeded/<PROP>-<LABEL>/.
"""
import json, os, shutil, subprocess, sys, time

prop, label = sys.argv[1], sys.argv[2]
tier = "quick"
if "--tier" in sys.argv:
    tier = sys.argv[sys.argv.index("--tier") + 1]
only = sys.argv[sys.argv.index("--only") + 1] if "--only" in sys.argv else None
skip = "--skip-confirm" in sys.argv
wt = f"/tmp/wt/{prop}"
rnd = sys.argv[sys.argv.index("--round") + 1] if "--round" in sys.argv else ""
out = f"/tmp/wt/out{rnd}_{prop}"
diff = f"{out}/{label}.diff"
demo = f"{out}/{label}_demo.py"
dest = f"/verif/seeded/{prop}-{label}{rnd}"
os.makedirs(dest, exist_ok=True)
meta = {"property": prop, "label": label}
if os.path.exists(f"{dest}/meta.json"):
    meta = json.load(open(f"{dest}/meta.json"))


def run(cmd, **kw):
    return subprocess.run(cmd, shell=True, capture_output=True, text=True, **kw)


env = dict(os.environ, PYTHONPATH=f"{wt}/src")
# mutations are examined on top of the current /repo HEAD (which includes the fix: commits)
head = run("git -C /repo rev-parse HEAD").stdout.strip()
run(f"git -C {wt} checkout -- . && git -C {wt} checkout -q --detach {head}")
meta["base_commit"] = head[:8]
if not skip:
    run(f"git -C {wt} checkout -- .")
    r = run(f"PYTHONPATH={wt}/src /venv/bin/python {demo}")
    meta["demo_without"] = r.returncode
    a = run(f"git -C {wt} apply {diff}")
    if a.returncode:
        print("APPLY FAILED in worktree", a.stderr)
        sys.exit(2)
    t = run(f"cd {wt} && PYTHONPATH={wt}/src /venv/bin/python -m pytest -q -p no:cacheprovider -x --timeout=900 2>&1 | tail -1")
    meta["suite_with_mutation"] = t.stdout.strip()
    r = run(f"PYTHONPATH={wt}/src /venv/bin/python {demo}")
    meta["demo_with"] = r.returncode
    meta["demo_output_with"] = (r.stdout + r.stderr)[-600:]
    run(f"git -C {wt} checkout -- .")
    shutil.copy(diff, f"{dest}/patch.diff")
    shutil.copy(demo, f"{dest}/demo.py")
    if os.path.exists(f"{out}/{label}_notes.md"):
        shutil.copy(f"{out}/{label}_notes.md", f"{dest}/notes.md")
    print("confirm:", {k: meta[k] for k in ("demo_without", "suite_with_mutation", "demo_with")})

# run the checks against the scratch worktree with the mutation applied (VERIF_REPO),
# so /repo itself is never touched and several mutants can be examined in parallel
run(f"git -C {wt} checkout -- .")
a = run(f"git -C {wt} apply {dest}/patch.diff")
if a.returncode:
    print("APPLY FAILED in worktree", a.stderr)
    sys.exit(2)
try:
    t0 = time.time()
    cmd = f"cd /verif && VERIF_REPLAY_DIR=/tmp/wt/replays_{prop} VERIF_REPO={wt} ./check {prop} --tier {tier} --no-evidence" + (f" --only '{only}'" if only else "")
    c = run(cmd)
    lines = c.stdout.strip().split("\n")
    viol = [l for l in lines if l.startswith("VIOLATION")]
    summary = [l for l in lines if l.startswith("[")]
    first = None
    if viol:
        p = viol[0].split("replay=")[1]
        d = json.load(open(p))
        first = {"obligation": d.get("obligation"), "assignment": d.get("assignment"), "obs_native": d.get("obs_native")}
    meta.setdefault("checks", {})[tier + (f":{only}" if only else "")] = {
        "exit": c.returncode, "violations": len(viol), "summary": summary[-1] if summary else None,
        "first_violation": first, "wall_s": round(time.time() - t0, 1),
        "other": [l[:300] for l in lines if l.startswith(("ENGINE", "INCONCLUSIVE"))][:4]}
    print("check:", json.dumps(meta["checks"][tier + (f":{only}" if only else "")], default=str)[:1500])
finally:
    run(f"git -C {wt} checkout -- .")
json.dump(meta, open(f"{dest}/meta.json", "w"), indent=1, default=str)
