#!/bin/sh
# usage: tools/run_all.sh quick|thorough [ids...]   -- runs the checks one after another, prints wall time and exit status
tier=${1:-quick}; shift
ids=${*:-C01 C02 C03 C04 C05 C06 C07 C08 C09 C10 C11 C12 C13 C14 C15 C16 C17 C18 C19 C20}
cd "$(dirname "$0")/.."
for id in $ids; do
  s=$(date +%s)
  ./check $id --tier $tier > /tmp/run_all_${tier}_$id.log 2>&1
  rc=$?
  e=$(date +%s)
  echo "$id tier=$tier exit=$rc wall=$((e-s))s $(grep "^\[$id" /tmp/run_all_${tier}_$id.log | tail -1 | cut -c1-220)"
  grep -E "^(VIOLATION|ENGINE-ERROR|INCONCLUSIVE)" /tmp/run_all_${tier}_$id.log | head -3 | cut -c1-300
done
