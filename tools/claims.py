"""What MANIFEST.json claims, per property.  Edited by hand; tools/mkmanifest.py renders it."""

ENGINES = [
    {"name": "symex", "path": "symex/", "serves_properties": [],
     "kind_free_text": "bounded symbolic interpreter for werkzeug's own source (AST from inspect.getsource on every run) over z3 terms: SInt/SBool/SSeq(bytes,str) proxies, priority-respecting regex compiler from the live pattern objects, DFS path exploration by re-execution, native replay of every model and per-path validation"},
]

NOTES = ("All checks are solver-based: werkzeug's source is executed symbolically on every run and each explored path ends in a z3 query "
         "path-condition AND NOT property. Exit 0 = unsat on every explored path within the stated bounds; exit 1 = a model that was replayed "
         "natively against /repo/src and violates the property; exit 2 = engine/harness error (non-reproducing model, validation mismatch). "
         "Bounds, stubs and what lies outside each claim are in DESIGN.md and in each evidence file.")

_PENDING = "check not built yet in this round (see DESIGN.md section 4 for the plan); not claimed until its harness validates"

CLAIMS = {
    "C09": {
        "text": "Bounded symbolic execution of wsgi.LimitedStream (readinto/readall/exhaust/on_exhausted/on_disconnect) from the real source: data length, limit, is_max, read sizes, per-call fragment sizes of the underlying stream and the fault point are solver variables; every sequence of 2 (quick) / 3 (thorough) operations over read/readinto/readall/exhaust is explored and each path's query (no over-read, prefix-exactness, readinto buffer contract, disconnect/too-large only when warranted) is unsat. Holds for every value within the bounds, says nothing beyond them.",
        "note": "Trusted: the interpreter's model of Python semantics (validated per path by native replay), z3, the io.RawIOBase.read stub (documented definition), the nondeterministic underlying-stream stub. Bounds: data <= 6/8 bytes, 2/3 operations.",
    },
}

NOT_APPLICABLE = {pid: _PENDING for pid in [f"C{i:02d}" for i in range(1, 21)]}
