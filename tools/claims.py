"""What MANIFEST.json claims, per property.  Edited by hand; tools/mkmanifest.py renders it."""

ENGINES = [
    {"name": "symex", "path": "symex/", "serves_properties": [],
     "kind_free_text": "bounded symbolic interpreter for werkzeug's own source (AST from inspect.getsource on every run) over z3 terms: SInt/SBool/SSeq(bytes,str) proxies, priority-respecting regex compiler from the live pattern objects, DFS path exploration by re-execution, native replay of every model and per-path validation"},
]

NOTES = ("All checks are solver-based: werkzeug's source is executed symbolically on every run and each explored path ends in a z3 query "
         "path-condition AND NOT property. Exit 0 = unsat on every explored path within the stated bounds; exit 1 = a model that was replayed "
         "natively against /repo/src and violates the property; exit 2 = engine/harness error (non-reproducing model, validation mismatch). "
         "Bounds, stubs and what lies outside each claim are in DESIGN.md and in each evidence file.")

_PENDING = "check not built yet in this round (see DESIGN.md section 4 for the plan); not claimed until its harness validates"

CLAIMS = {
    "C01": {
        "text": "Bounded symbolic execution of the real MultipartDecoder end-to-end (PREAMBLE..EPILOGUE; receive_data, next_event, _parse_data, last_newline, _parse_headers, live regexes) on bodies whose part payload is n solver bytes over all 256 values: fed whole and split at every offset (all 2-way splits; thorough adds 3-way splits around the payload), the two event streams are compared inside one z3 query per path, plus an absolute oracle (look-alike-free payload comes back byte-exact); CRLF, bare-LF and bare-CR framing, body-less parts, a following part. One level up MultiPartParser.parse/_chunk_iter run over a stream stub for every buffer_size 1..len+1 (thorough: plus one solver-placed short read). unsat on every path = independent of chunking for every payload within the bound.",
        "note": "Trusted: interpreter + primitive models (validated on every path by native replay), z3. Bounds: payload <= 4 bytes quick / 4-5 thorough, boundary b'b' (thorough also b'-b', b'bb'), concrete header block. Longer payloads, other boundaries, k>3-way splits are outside the claim.",
    },
    "C10": {
        "text": "Symbolic execution of MultipartDecoder.receive_data/next_event, MultiPartParser.parse and wsgi.get_input_stream with max_form_memory_size, max_form_parts and max_content_length as solver integers (or None): buffer length <= limit after every receive, part counter, accumulated field size, and the pure-guard law (a limited run that succeeds returns exactly the unlimited result, compared in the same query) over symbolic payload bytes, several part shapes, buffer sizes and 2-way splits; get_input_stream's decision table against an independent reading of CONTENT_LENGTH for every text <= 3 characters in U+0000..U+07FF.",
        "note": "Trusted: as C01 plus the stream / stream_factory stubs. Bounds: field payload <= 4 (quick) / 6 bytes, 1-4 parts, limits 0..len(body)+2. urlencoded bodies: only the declared-length check is covered.",
    },
    "C13": {
        "text": "Symbolic execution of http.dump_cookie (quote-free fast path, UTF-8 encoding, escaping regex and table lookup, attribute assembly) followed by sansio.http.parse_cookie and http.parse_cookie (pair splitting regex, un-escaping, decoding) on a value of n solver code points: every path's query asserts that the emitted value is ASCII made of RFC 6265 cookie-octets, or a quoted string whose body contains only printable non-separator characters and backslash escapes, and that parsing returns exactly the value; a second harness asserts the attribute list is exactly the requested one, canonical and in fixed order, with max_age a solver integer and every flag combination.",
        "note": "Trusted: interpreter/regex/codec models (validated per path natively), z3. Bounds: value <= 3 code points in U+0000..U+07FF (quick; 4 thorough), 1 (2 thorough) code point over all of Unicode incl. surrogates; concrete token key. A raw space inside a quoted value is accepted (pinned by the suite). IDNA domains, expires dates and the test client's jar are outside.",
    },
    "C14": {
        "text": "Symbolic execution of security.safe_join together with the stdlib path helpers it calls (posixpath.join/isabs interpreted from source; normpath via the stdlib's own pure-Python twin) on 1-3 untrusted components whose characters are solver variables over every 8-bit code point (incl. '/', '.', backslash, NUL), against absolute, relative, empty, root and nested base directories: on every path the query 'result is not None and normpath(result) lies outside normpath(base)' is unsat. utils.secure_filename on ASCII input: output alphabet, no leading dot, idempotence.",
        "note": "Trusted: interpreter/primitive models (per-path native replay against the real C normpath), the normpath twin (differentially tested against the C function on 22k strings each run), z3. Bounds: 1 component <= 6 chars, 2 <= 4, 3 <= 2 (quick). Filesystem end-to-end (send_from_directory, SharedDataMiddleware), Windows separators and non-ASCII filenames are outside the claim.",
    },
    "C06": {
        "text": "For each serialiser/parser pair (quote/unquote_header_value, dump_header with parse_list/dict_header, dump/parse_options_header, HeaderSet/parse_set_header, ETags/parse_etags, Range/parse_range_header incl. suffix and multi ranges, ContentRange, dump_age/parse_age, ResponseCacheControl/parse_cache_control_header, ContentSecurityPolicy/parse_csp_header, WWWAuthenticate token and parameter forms) both halves are executed symbolically from the real source on values of n solver characters (every 8-bit code point except CR/LF) or solver integers (bit-vector backed, rendered with up to 6 digits); the query parse(dump(v)) != v is unsat on every path. The normal-form law parse(dump(parse(h))) == parse(h) is checked for list, set and range headers on every text h of <= 4 characters.",
        "note": "Trusted: interpreter/regex models validated per path by native replay, z3. Bounds: values <= 3 characters (quick) / 5, 1-2 values per structure, concrete token keys. HTTP dates, If-Range dates, Basic credentials and code points above U+00FF are outside the claim.",
    },
    "C07": {
        "text": "Each parser of the HTTP utility layer (parse_options/list/dict/set_header, parse_accept_header with all four Accept classes incl. best_match/quality/membership, parse_cache_control/csp/etags/range/content_range/if_range/age, both cookie parsers, Authorization/WWWAuthenticate.from_header, get_content_length, get_host, host_is_trusted) and Request.args are executed symbolically on a header value of n solver characters over the property's alphabet (Latin-1 without control characters); on every path the query 'an exception other than a werkzeug HTTPException escapes' is unsat, and loops are unrolled under an unwinding bound whose violation is reported as inconclusive.",
        "note": "Trusted: interpreter/regex/codec models validated per path by native replay; stubs for base64.b64decode, urllib.parse.parse_qsl, datetime.timedelta and codecs.lookup (the last differentially tested each run). Bounds: text <= 4 characters (3 for the heavy targets) quick, 6/4 thorough. form/files/data, parse_date, Request.url/base_url and IDNA host names are outside the claim.",
    },
    "C09": {
        "text": "Bounded symbolic execution of wsgi.LimitedStream (readinto/readall/exhaust/on_exhausted/on_disconnect) from the real source: data length, limit, is_max, read sizes, per-call fragment sizes of the underlying stream and the fault point are solver variables; every sequence of 2 (quick) / 3 (thorough) operations over read/readinto/readall/exhaust is explored and each path's query (no over-read, prefix-exactness, readinto buffer contract, disconnect/too-large only when warranted) is unsat. Holds for every value within the bounds, says nothing beyond them.",
        "note": "Trusted: the interpreter's model of Python semantics (validated per path by native replay), z3, the io.RawIOBase.read stub (documented definition), the nondeterministic underlying-stream stub. Bounds: data <= 6/8 bytes, 2/3 operations.",
    },
}

NOT_APPLICABLE = {pid: _PENDING for pid in [f"C{i:02d}" for i in range(1, 21)]}
